"""C14 transparency of the relay (requests, responses, keep-alive pipelines)."""
import threading
import time
import e2e
import pipe
import pipegen
import vlib

LOW = 102400


def oracle(chk, o, m):
    case = o["case"]
    full = [r for r in o["recs"] if not r.get("partial")]
    body = o["req"].get("body") or b""
    chk.case(nontrivial_key=(case.get("label"), o["req"]["method"], len(body), str(o["req"].get("chunked"))[:30],
                              (case.get("plan") or {}).get("status"), len((case.get("plan") or {}).get("body", b"")))
             if full else None)
    chk.count("body_%s" % ("0" if not body else "small" if len(body) < 1000 else "limit" if len(body) == LOW else "large"))
    chk.count("framing_" + ("chunked" if o["req"].get("chunked") is not None else "cl" if o["req"].get("body") is not None else "none"))
    if m["kind"] != "forward":
        return
    d = pipe.Runner.describe(None, o)
    if len(full) != 1:
        chk.violation("authorized request not relayed exactly once", d, observed=len(full))
        return
    r = full[0]
    req = o["req"]
    if r["method"].decode() != req["method"] or r["target"].decode("latin-1") != req["target"] or r["body"] != body:
        chk.violation("method/target/body changed on the way to the host", d,
                      expected=(req["method"], req["target"], len(body)), observed=(r["method"], r["target"], len(r["body"])))
    own = {b"x-ms-azure-host-claims", b"x-ms-azure-host-date", b"x-ms-azure-host-authorization"}
    want = [(n, v) for n, v in pipe.group_headers(pipe.wire_headers(req), pipe.IGNORED_REQ) if n not in own]
    got = [(n, v) for n, v in pipe.group_headers(r["headers"], pipe.IGNORED_REQ) if n not in own]
    if want != got:
        chk.violation("client headers changed on the way to the host", d, expected=[(a.decode("latin-1"), b.decode("latin-1")) for a, b in want],
                      observed=[(a.decode("latin-1"), b.decode("latin-1")) for a, b in got])
    plan = case.get("plan") or {"status": 200, "body": b"ok", "headers": [(b"content-type", b"text/plain")]}
    resp = o["resp"]
    nobody = req["method"] == "HEAD" or plan["status"] in (204, 304)
    if resp is None or resp["status"] != plan["status"] or (not nobody and resp["body"] != plan.get("body", b"")):
        chk.violation("status/body changed on the way to the client", d, expected=(plan["status"], len(plan.get("body", b""))),
                      observed=resp and (resp["status"], len(resp["body"])))
    elif resp is not None:
        wanth = [(n, v) for n, v in pipe.group_headers(plan.get("headers", []), pipe.IGNORED_RESP) if n != b"x-ms-azure-host-authorization"]
        goth = pipe.group_headers(resp["headers"], pipe.IGNORED_RESP)
        marker = [v for n, v in goth if n == b"x-ms-azure-host-authorization"]
        goth = [(n, v) for n, v in goth if n != b"x-ms-azure-host-authorization"]
        if wanth != goth or len(marker) != 1:
            chk.violation("response headers changed (other than one marker header)", d, expected=str(wanth)[:400], observed=str(goth)[:400] + str(marker))


def keepalive_workers(chk, rng, stack, callers, nconn, nreq, pipelined):
    """nconn concurrent keep-alive connections, nreq requests each; every request has its own plan"""
    caller = callers.caller(0, "curl", True)
    errs = []
    plans = {}
    conns = []
    seeds = []
    for c in range(nconn):
        conn = stack.connect(audit=(caller["uid"], caller["pid"], 1, e2e.IMDS[0], e2e.IMDS[1]), timeout=15.0)
        conns.append(conn)
        seeds.append(rng.fork())

    def work(ci):
        conn, r = conns[ci], seeds[ci]
        reqs = []
        for j in range(nreq):
            token = f"k{ci}_{j}_{r.below(1 << 30)}"
            body = bytes(r.below(256) for _ in range(r.pick([0, 3, 50, 700])))
            pbody = (f"resp-{ci}-{j}-".encode() + bytes(r.below(256) for _ in range(r.pick([0, 10, 300, 4000]))))
            plan = {"status": r.pick([200, 200, 201, 404]), "reason": "K", "headers": [(b"x-resp-id", token.encode())],
                    "body": pbody, "framing": r.pick(["cl", "chunked"])}
            if plan["framing"] == "chunked":
                plan["chunks"] = [r.rand_range(1, max(1, len(pbody))) for _ in range(3)]
            stack.hosts.plans[token] = plan
            raw = e2e.build_request("POST", f"/metadata/c{ci}/r{j}", [(b"Host", b"h"), (b"x-verif-token", token.encode())], body,
                                    [max(1, len(body) // 2)] if (body and r.chance(1, 2)) else None)
            reqs.append((token, plan, raw, body))
        if pipelined:
            conn.send(b"".join(x[2] for x in reqs))
            for token, plan, raw, body in reqs:
                resp = conn.read_response(b"POST", 15.0)
                check(ci, token, plan, resp)
        else:
            for token, plan, raw, body in reqs:
                resp = conn.request(raw, b"POST", 15.0)
                check(ci, token, plan, resp)

    def check(ci, token, plan, resp):
        if resp is None:
            errs.append((ci, token, "no response"))
            return
        rid = e2e.hget(resp["headers"], b"x-resp-id")
        if rid != token.encode() or resp["status"] != plan["status"] or resp["body"] != plan["body"]:
            errs.append((ci, token, "response of another request or altered", rid and rid.decode(), resp["status"], len(resp["body"]), len(plan["body"])))

    ths = [threading.Thread(target=work, args=(i,)) for i in range(nconn)]
    for t in ths:
        t.start()
    for t in ths:
        t.join()
    for c in conns:
        c.close()
    recs = stack.hosts.take()
    # every upstream record must carry the body/target of its own token
    chk.count("keepalive_requests", nconn * nreq)
    chk.count("keepalive_pipelined" if pipelined else "keepalive_sequential", nconn * nreq)
    for i in range(nconn * nreq):
        chk.case(nontrivial_key=("ka", nconn, nreq, pipelined, i))
    for e in errs[:5]:
        chk.violation("keep-alive: a response did not go to the request that caused it (or was altered)",
                      {"connections": nconn, "requests_per_connection": nreq, "pipelined": pipelined, "detail": str(e)})
    return len(recs)


def slow_reader_large_response(chk, rng, stack, callers):
    """a client that asked for `Connection: close` (or speaks HTTP/1.0) and reads a body of tens of MiB slowly: the proxy finishes
    writing long before the client finishes reading, and every byte still arrives"""
    import socket
    size = (24 << 20) if chk.tier == "quick" else (64 << 20)
    block = bytes(rng.below(256) for _ in range(65536))
    body = (block * (size // 65536 + 1))[:size]
    for variant in ("connection-close", "http/1.0"):
        c = callers.caller(0, "curl", True)
        conn = stack.connect(audit=(0, c["pid"], 1, e2e.IMDS[0], e2e.IMDS[1]))
        tok = "slow-" + variant[:4]
        stack.hosts.plans[tok] = {"status": 200, "reason": "OK", "headers": [(b"content-type", b"application/octet-stream")], "body": body, "framing": "cl"}
        if variant == "http/1.0":
            raw = b"GET /metadata/instance?slow=1 HTTP/1.0\r\nHost: h\r\nx-verif-token: " + tok.encode() + b"\r\n\r\n"
        else:
            raw = e2e.build_request("GET", "/metadata/instance?slow=1", [(b"Host", b"h"), (b"Connection", b"close"), (b"x-verif-token", tok.encode())])
        got = bytearray()
        reset = False
        try:
            conn.s.sendall(raw)
            conn.s.settimeout(20.0)
            time.sleep(1.0)                       # the proxy has the whole body from the host by now and is ahead of the reader
            while True:
                d = conn.s.recv(65536)
                if not d:
                    break
                got += d
                time.sleep(0.002)
        except (ConnectionResetError, socket.timeout, OSError):
            reset = True
        conn.close()
        stack.hosts.plans.pop(tok, None)
        head, _, rest = bytes(got).partition(b"\r\n\r\n")
        chk.case(nontrivial_key=("slow-reader", variant, len(rest)))
        chk.count("slow_reader_large_responses")
        d = {"client": variant + ", reads 64 KiB every 2 ms after a 1 s pause", "body_bytes_sent_by_host": size, "body_bytes_received": len(rest),
             "connection_reset": reset, "status_line": head.split(b"\r\n")[0].decode("latin-1")}
        if not head.startswith(b"HTTP/1.") or b" 200 " not in head.split(b"\r\n")[0] + b" ":
            chk.disagreement("pipeline", d, "200 from the host", d["status_line"])
        elif rest != body:
            chk.violation("status/body changed on the way to the client", d, expected=(200, size), observed=(200, len(rest)))


def first_request_before_host_connects(chk, stack, callers):
    """the host takes about a second to accept the agent's connection; the client's first request is already waiting: it is relayed
    once the connection is there, not answered by the proxy in the host's place"""
    host = e2e.SlowAcceptHost(e2e.OTHER[0], 8124, 0.3)
    try:
        c = callers.caller(0, "curl", True)
        conn = stack.connect(audit=(0, c["pid"], 1, e2e.OTHER[0], 8124))
        t0 = time.time()
        try:
            r = conn.request(e2e.build_request("GET", "/first?x=1", [(b"Host", b"h")]), b"GET", 12.0)
            r2 = conn.request(e2e.build_request("GET", "/second?x=1", [(b"Host", b"h")]), b"GET", 6.0) if r is not None else None
        except OSError:
            r = r2 = None
        conn.close()
        chk.case(nontrivial_key=("slow-accepting-host", r and r["status"], r2 and r2["status"]))
        chk.count("first_request_before_host_connects")
        d = {"host": "accepts the agent's connection after about a second", "first": r and (r["status"], r["body"][:20]), "second": r2 and r2["status"],
             "seconds": round(time.time() - t0, 2), "requests_seen_by_host": len(host.requests)}
        if r is None or r["status"] != 200 or r["body"] != b"slow-host":
            chk.violation("authorized request not relayed exactly once", d, expected="200 from the host once it accepts", observed=r and r["status"])
    finally:
        host.close()


def host_closes_connection(chk, rng, stack, callers):
    """the host ends its connection with `Connection: close`; the client connection shares that upstream, so the next request of
    the client must not be answered by the proxy in the host's place: either the client connection ends too (the client
    reconnects) or the request reaches the host"""
    for k in range(3):
        c = callers.caller(0, "curl", True)
        conn = stack.connect(audit=(0, c["pid"], 1, e2e.IMDS[0], e2e.IMDS[1]))
        tok = "hc%d" % k
        stack.hosts.plans[tok] = {"status": 200, "reason": "OK", "headers": [(b"content-type", b"text/plain"), (b"Connection", b"close")],
                                  "body": b"first", "framing": "cl", "close": True}
        stack.hosts.take()
        r1 = conn.request(e2e.build_request("GET", "/metadata/instance?first=%d" % k, [(b"Host", b"h"), (b"x-verif-token", tok.encode())]), b"GET", 6.0)
        stack.hosts.plans.pop(tok, None)
        time.sleep(0.1)
        stack.hosts.take()
        try:
            r2 = conn.request(e2e.build_request("GET", "/metadata/instance?second=%d" % k, [(b"Host", b"h")]), b"GET", 6.0)
        except OSError:
            r2 = None
        recs = [r for r in stack.hosts.take() if not r.get("partial")]
        conn.close()
        chk.case(nontrivial_key=("host-closes", k, r2 and r2["status"]))
        chk.count("host_closed_connection_cases")
        d = {"first_response": r1 and r1["status"], "second_response": r2 and r2["status"], "host_saw_second_request": bool(recs)}
        if r1 is None or r1["status"] != 200 or r1["body"] != b"first":
            chk.disagreement("pipeline", d, "first response relayed", str(r1)[:200])
        elif r2 is not None and not recs:
            chk.violation("the proxy answered a request itself after the host had closed its connection (the response is not the host's)", d,
                          expected="client connection closed, or the request relayed to the host", observed=(r2["status"], r2["body"][:80]))


def run(chk):
    if not e2e.in_netns():
        e2e.reexec_in_netns()
    rng = vlib.Rng(chk.seed)
    chk.prove()
    if not chk.driver():
        return
    ok, binp, out = vlib.build_harness("agent")
    if not ok:
        chk.broken.append({"kind": "harness", "name": "agent harness build", "why": out[-1500:]})
        return
    stack = e2e.Stack(binp)
    try:
        callers = pipe.Callers(stack)
        pipegen.bind_rule_vocab(callers)
        runner = pipe.Runner(chk, stack, callers)
        st = {}
        n = 150 if chk.tier == "quick" else 8000
        for i in range(n):
            case = pipegen.gen_case(rng, callers, st, dest_label=rng.pick(["imds", "other", "ws"]), with_key=rng.chance(1, 2))
            for ep in ("ws", "imds", "hostga"):
                case["env"][ep] = None           # authorized: transparency is about relayed requests
            case["caller"] = callers.caller(0, rng.pick(["curl", "waagent"]), True)
            req = case["req"]
            if req["target"] in ("/provision",) or ".." in req["target"]:
                req["target"] = "/metadata/instance?api-version=2021"
            if rng.chance(1, 2):
                req["method"] = rng.pick(["POST", "PUT"])
                size = rng.pick([0, 1, 2, 100, 4096, 65536, LOW - 1, LOW]) if rng.chance(1, 3) else rng.rand_range(0, 3000)
                req["body"] = bytes(rng.below(256) for _ in range(min(size, 4096))) * (size // 4096 + 1)
                req["body"] = req["body"][:size]
                req["chunked"] = None
                if rng.chance(1, 2) and size > 0:
                    req["chunked"] = [rng.rand_range(1, max(1, size // rng.rand_range(1, 5))) for _ in range(rng.rand_range(1, 6))]
            if case["plan"] is None and rng.chance(1, 2):
                case["plan"] = pipegen.gen_plan(rng)
            runner.run_case(case)
        # request heads of tens to hundreds of KiB (one long header value, many long ones, a long query string): relayed as they are
        for k, (hsize, nh, qlen) in enumerate([(20000, 1, 0), (40000, 1, 0), (60000, 1, 0), (3000, 60, 0), (150000, 2, 0), (10, 1, 30000), (50000, 1, 20000)]):
            hs = [(b"Host", b"h")] + [(b"x-long-%d" % i, bytes([97 + (i + j) % 26 for j in range(hsize)])) for i in range(nh)]
            tgt = "/metadata/instance?api-version=2021" + ("&q=" + "z" * qlen if qlen else "")
            runner.run_case({"env": {"ws": None, "imds": None, "hostga": None, "key": pipegen.KEY if k % 2 else None},
                             "caller": callers.caller(0, "curl", True), "dest": e2e.IMDS, "label": "imds", "plan": None, "timeout": 10.0,
                             "req": {"method": "GET", "target": tgt, "headers": hs, "body": None, "chunked": None}})
            chk.count("large_request_heads")
        # one kept-alive connection carrying ordinary requests and uploads of the large class in turn: each is relayed as it is,
        # whatever the connection carried before
        def rq(method, target, size, chunked=None, key=True):
            b = bytes(rng.below(256) for _ in range(4096)) * (size // 4096 + 1)
            return {"env": {"ws": None, "imds": None, "hostga": None, "key": pipegen.KEY if key else None},
                    "caller": callers.caller(0, "waagent", True), "dest": e2e.WS, "label": "ws", "plan": pipegen.gen_plan(rng) if rng.chance(1, 2) else None,
                    "timeout": 20.0, "req": {"method": method, "target": target, "headers": [(b"Host", b"h")],
                                             "body": (b[:size] if method != "GET" else None), "chunked": chunked}}
        up, up2, plain = ("PUT", "/vmAgentLog"), ("POST", "/machine/?comp=telemetrydata"), ("POST", "/machine/?comp=telemetry")
        for sess in ([rq("GET", "/machine?comp=goalstate", 0), rq(*up2, LOW + LOW // 2), rq(*plain, 300), rq(*up, 3 * LOW, [70000] * 5)],
                     [rq(*plain, 17), rq(*up, 2 * LOW), rq("GET", "/machine?comp=goalstate", 0)],
                     [rq(*up, 100), rq(*plain, LOW), rq(*up2, 4 * LOW, key=False), rq(*plain, 1)]):
            done = runner.run_session(sess, chk.count)
            chk.count("kept_connection_mixed_class_requests", len(done))
        runner.finish(oracle)
        chk.sample(runner.describe(runner.observations[1]))
        host_closes_connection(chk, rng, stack, callers)
        slow_reader_large_response(chk, rng, stack, callers)
        first_request_before_host_connects(chk, stack, callers)
        after = pipe.abort_storm(stack, callers, n=30 if chk.tier == "quick" else 200)
        chk.case(nontrivial_key=("abort-storm", after and after["status"]))
        if after is None or after["status"] != 200 or after["body"] != b"ok":
            chk.violation("after other clients hung up mid-request, a request is no longer relayed to the host and answered with the host's response",
                          {"clients": "30 connections reset right after sending a request, actors slowed by 4 ms per message"}, expected="200 'ok' from the host",
                          observed=after and (after["status"], after["body"][:60]))
        # keep-alive / pipelining
        rounds = 3 if chk.tier == "quick" else 60
        for k in range(rounds):
            keepalive_workers(chk, rng, stack, callers, rng.rand_range(4, 16), rng.rand_range(5, 20 if chk.tier == "quick" else 50), pipelined=(k % 2 == 1))
        chk.sample({"keepalive": "each of N concurrent keep-alive connections sends M POSTs, each with its own token, body and "
                                 "response plan; responses must carry the token of the request they answer"})
    finally:
        stack.close()
    chk.coverage["rule"] = ("authorized requests with bodies 0..limit (content-length or random chunkings, binary), response plans with "
                            "random status/headers/body/framing/frame boundaries; plus concurrent keep-alive connections, sequential and "
                            "pipelined; non-trivial = distinct (dest, method, body length, chunking, plan)")
