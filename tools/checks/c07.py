"""C07 attribution is single-use."""
import threading
import os
import time
import e2e
import pipe
import pipegen
import vlib
from vlib import hx

DESTS = [e2e.IMDS, e2e.OTHER, e2e.OTHER2]
DEAD = (e2e.OTHER[0], 81)      # an address of this namespace with no listener: the upstream connect is refused


def req_raw(token):
    return e2e.build_request("GET", "/metadata/instance?t=" + token, [(b"Host", b"h"), (b"x-verif-token", token.encode())])


def observe_ctx(stack, conn, token):
    """one request on the connection; returns 'U' (421, nothing upstream) or 'A <elev> <ip> <port>' from what the host saw"""
    stack.hosts.take()
    resp = conn.request(req_raw(token), b"GET", timeout=6.0)
    recs = [r for r in stack.hosts.take() if not r.get("partial")]
    if resp is None:
        return "noresp", resp, recs
    if resp["status"] == 421 and not recs:
        return "U", resp, recs
    if resp["status"] == 200 and len(recs) == 1:
        cl = e2e.hget(recs[0]["headers"], b"x-ms-azure-host-claims") or b""
        elev = 1 if b'"true"' in cl else 0
        host = e2e.HOSTS[recs[0]["host"]]
        return "A %d %s %d" % (elev, host[0], host[1]), resp, recs
    return "other:%s:%d" % (resp["status"], len(recs)), resp, recs


def exec_between_connections(chk, stack):
    """the process a record names is looked up when ITS connection is accepted: the same pid that has exec'ed another program in
    between (or a re-used pid) is another caller. Observed through the connection summary the agent keeps per caller."""
    import os
    import shutil
    import subprocess
    import sys
    exe_a = os.path.join(stack.sd, "cbin", "first-program")
    exe_b = os.path.join(stack.sd, "cbin", "second-program")
    os.makedirs(os.path.dirname(exe_a), exist_ok=True)
    shutil.copyfile(sys.executable, exe_a); os.chmod(exe_a, 0o755)
    shutil.copyfile(shutil.which("sleep"), exe_b); os.chmod(exe_b, 0o755)
    env = dict(os.environ, PYTHONHOME=sys.base_prefix)
    p = subprocess.Popen([exe_a, "-c", "import sys,os; sys.stdin.readline(); os.execv(sys.argv[1], [sys.argv[1], '600'])", exe_b],
                         stdin=subprocess.PIPE, stdout=subprocess.DEVNULL, stderr=subprocess.DEVNULL, env=env)
    stack.pids.append(p)
    time.sleep(0.3)
    if p.poll() is not None:
        chk.notes.append("exec-between-connections stage skipped: the helper interpreter did not start")
        return
    stack.ctl("clear")
    seen = []
    for phase in ("before exec", "after exec"):
        port = stack.fresh_port()
        stack.ctl("audit %d 0 %d 1 %s %d" % (port, p.pid, e2e.IMDS[0], e2e.IMDS[1]))
        try:
            c = e2e.ClientConn(port, 6.0)
        except OSError:
            return
        c.request(req_raw("exec-" + phase[:5]), b"GET", 6.0)
        c.close(rst=True)
        time.sleep(0.05)
        summ = stack.ctl("conns")
        paths = sorted({vlib.unhx(e.split("|")[3]).decode("utf-8", "replace") for e in summ.split(",") if e and e != "-" and "|" in e})
        seen.append(paths)
        if phase == "before exec":
            p.stdin.write(b"go\n"); p.stdin.flush()
            time.sleep(0.4)
    chk.case(nontrivial_key=("exec-between", tuple(map(tuple, seen))))
    chk.count("exec_between_connections")
    d = {"pid": p.pid, "program_before": exe_a, "program_after": exe_b, "summary_paths_after_first": seen[0], "summary_paths_after_second": seen[1]}
    if not any(x.endswith("first-program") for x in seen[0]):
        chk.disagreement("attribution", d, "first connection summarised under first-program", seen[0])
    elif not any(x.endswith("second-program") for x in seen[1]):
        chk.violation("a connection was attributed to the program an EARLIER connection of the same pid belonged to", d,
                      expected="second connection summarised under second-program", observed=seen[1])


def many_open_connections(chk, stack, callers):
    """150 client connections are open and idle when a redirected connection arrives: it is attributed like any other and its
    record is used up, so the port starts with nothing afterwards"""
    import socket
    pid = callers.procs["curl"]["pid"]
    idle = []
    try:
        for _ in range(150):
            s_ = socket.socket()
            s_.settimeout(2.0)
            try:
                s_.connect(e2e.PROXY)
                idle.append(s_)
            except OSError:
                s_.close()
        time.sleep(0.3)
        stack.ctl("auditclear")
        p = 47000 + os.getpid() % 900
        stack.ctl("audit %d 0 %d 1 %s %d" % (p, pid, e2e.IMDS[0], e2e.IMDS[1]))
        first = second = "connect-failed"
        try:
            c = e2e.ClientConn(p, 6.0)
            first, _, _ = observe_ctx(stack, c, "many-1")
            c.close(rst=True)
        except OSError:
            pass
        time.sleep(0.1)
        ports = stack.ctl("ports")
        try:
            c = e2e.ClientConn(p, 6.0)
            second, _, _ = observe_ctx(stack, c, "many-2")
            c.close(rst=True)
        except OSError:
            pass
        chk.case(nontrivial_key=("many-open", len(idle), first, second))
        chk.count("many_open_connections_stage")
        d = {"idle_connections_open": len(idle), "attributed_connection": first, "records_left_afterwards": ports, "direct_connection_from_the_same_port": second}
        if first != "A 1 %s %d" % e2e.IMDS:
            chk.disagreement("attribution", d, "A 1 %s %d" % e2e.IMDS, first)
        if second.startswith("A") or second.startswith("other:"):
            chk.violation("a connection without a fresh kernel record was served with an identity", d, expected="U", observed=second)
        elif ports != "-":
            chk.violation("audit records left behind after all connections were accepted", d, expected="-", observed=ports)
    finally:
        for s_ in idle:
            try:
                s_.close()
            except OSError:
                pass
        time.sleep(0.2)


def slow_host_then_port_reuse(chk, stack, callers, what=None):
    """a redirected connection to a host that is slow to accept (the agent's own connect to it hangs) is reset by its client; another
    process then connects straight to the listener from the same source port: that connection has no record of its own and is refused
    at once - the first connection's record is not still lying around while its context is being built"""
    pid = callers.procs["curl"]["pid"]
    host = e2e.SlowAcceptHost(e2e.OTHER[0], 8123, None)
    try:
        for k in range(3):
            stack.ctl("auditclear")
            p = 46100 + (os.getpid() + k) % 700
            stack.ctl("audit %d 0 %d 1 %s %d" % (p, pid, e2e.OTHER[0], 8123))
            try:
                a = e2e.ClientConn(p, 6.0)
            except OSError:
                continue
            time.sleep(0.35)                    # the agent has looked the record up and is connecting to the host (which does not answer)
            a.close(rst=True)
            time.sleep(0.05)
            t0 = time.time()
            try:
                b = e2e.ClientConn(p, 6.0)
                r = b.request(req_raw("slow-%d" % k), b"GET", 2.5)
                b.close(rst=True)
            except OSError:
                continue
            took = time.time() - t0
            chk.case(nontrivial_key=("slow-host-port-reuse", k, r and r["status"]))
            chk.count("slow_host_then_port_reuse")
            d = {"first_connection": "redirected to a host whose listen queue is full, reset by its client after 0.35 s", "source_port": p,
                 "second_connection": "made straight to the listener from the same port, no record written for it",
                 "answer": r and r["status"], "seconds": round(took, 2)}
            if r is None or r["status"] != 421:
                chk.violation(what or "a connection without a fresh kernel record was served with an identity", d, expected="421 at once",
                              observed="no answer within 2.5 s" if r is None else r["status"])
    finally:
        host.close()


def user_per_connection(chk, stack, callers):
    """the user a record names is that connection's user, whichever users other connections resolved before it"""
    names = {uid: u["name"] for uid, u in callers.users.items()}
    pid = callers.procs["curl"]["pid"]
    seq = [1000, 0, 1000, 1000, 0, 1001, 1000, 1002, 0, 1001]
    for i, uid in enumerate(seq):
        stack.ctl("clear")
        port = stack.fresh_port()
        stack.ctl("audit %d %d %d %d %s %d" % (port, uid, pid, 1 if uid == 0 else 0, e2e.IMDS[0], e2e.IMDS[1]))
        try:
            c = e2e.ClientConn(port, 6.0)
        except OSError:
            continue
        c.request(req_raw("user-%d" % i), b"GET", 6.0)
        c.close(rst=True)
        time.sleep(0.03)
        summ = stack.ctl("conns")
        users = sorted({vlib.unhx(e.split("|")[0]).decode("utf-8", "replace") for e in summ.split(",") if e and e != "-" and "|" in e})
        chk.case(nontrivial_key=("user-seq", i, uid, tuple(users)))
        chk.count("user_sequence_connections")
        if users != [names[uid]]:
            chk.violation("a connection was summarised under another connection's user", {"uid_sequence": seq[:i + 1], "this_uid": uid},
                          expected=[names[uid]], observed=users)


def run(chk):
    if not e2e.in_netns():
        e2e.reexec_in_netns()
    rng = vlib.Rng(chk.seed)
    chk.prove()
    if not chk.driver():
        return
    ok, binp, out = vlib.build_harness("agent")
    if not ok:
        chk.broken.append({"kind": "harness", "name": "agent harness build", "why": out[-1500:]})
        return
    stack = e2e.Stack(binp)
    try:
        callers = pipe.Callers(stack)
        pid = callers.procs["curl"]["pid"]
        stack.ctl("rules ws none"); stack.ctl("rules imds none"); stack.ctl("rules hostga none")
        nhist = 40 if chk.tier == "quick" else 3000
        tok = 0
        for h in range(nhist):
            model_ops = ["attr new"]
            expect_idx = []   # (index into model output, observed string, description)
            stack.ctl("auditclear")
            base = 30000 + (h * 64) % 20000
            ports = [base + i for i in range(4)]
            live = {}
            hist_desc = []
            nops = rng.rand_range(4, 14)
            cid = 0
            for _ in range(nops):
                kind = rng.pick(["attributed", "attributed", "direct", "reuse", "reuse_fresh", "keepalive", "stale_record", "dead_host", "silent", "silent"])
                p = rng.pick(ports)
                if p in live:
                    live.pop(p).close(rst=True)
                    model_ops.append(f"attr close {p}")
                    time.sleep(0.01)
                elev = rng.below(2)
                dest = rng.pick(DESTS) if kind != "dead_host" else DEAD
                cid += 1
                if kind == "silent":
                    # a redirected connection that is closed again at once, without a byte: its record is used up all the same, so a
                    # later connection from that port (the "reuse" kinds) starts with nothing
                    stack.ctl("audit %d %d %d %d %s %d" % (p, 0 if elev else 1000, pid, elev, dest[0], dest[1]))
                    model_ops.append(f"attr record {p} {elev} {hx(dest[0])} {dest[1]}")
                    try:
                        conn = e2e.ClientConn(p, 6.0)
                    except OSError as e:
                        model_ops.append(f"attr accept {p} {p}")
                        model_ops.append(f"attr close {p}")
                        continue
                    conn.close()                       # FIN, nothing sent
                    model_ops.append(f"attr accept {p} {p}")
                    model_ops.append(f"attr close {p}")
                    # the listener takes the connection off its queue when it gets to it: wait for that (3 s at most), not for a fixed time
                    t_end = time.time() + 3.0
                    while True:
                        time.sleep(0.08)
                        got_ports = stack.ctl("ports")
                        if str(p) not in got_ports.replace(",", " ").split() or time.time() > t_end:
                            break
                    model_ops.append("attr ports")
                    expect_idx.append((len(model_ops) - 1, got_ports, f"ports after silent@{p}"))
                    hist_desc.append(f"silent@{p} elev={elev}")
                    chk.count("op_silent")
                    continue
                if kind in ("attributed", "reuse_fresh", "keepalive", "stale_record", "dead_host"):
                    stack.ctl("audit %d %d %d %d %s %d" % (p, 0 if elev else 1000, pid, elev, dest[0], dest[1]))
                    model_ops.append(f"attr record {p} {elev} {hx(dest[0])} {dest[1]}")
                try:
                    conn = e2e.ClientConn(p, 6.0)
                except OSError as e:
                    hist_desc.append(f"{kind}@{p}: connect failed {e}")
                    # undo the model record so both sides stay aligned
                    model_ops.append(f"attr accept {p} {p}")
                    model_ops.append(f"attr close {p}")
                    stack.ctl("audit %d 0 0 0 0.0.0.0 0" % p) if False else None
                    continue
                live[p] = conn
                model_ops.append(f"attr accept {p} {p}")
                acc_i = len(model_ops) - 1
                nreq = rng.rand_range(2, 20) if kind == "keepalive" else 1
                for j in range(nreq):
                    tok += 1
                    if kind == "stale_record" and j == 0:
                        # after the accept, the kernel writes ANOTHER record for the same port (a later connect reusing it):
                        # the live connection must keep its own context
                        time.sleep(0.05)
                        stack.ctl("audit %d %d %d %d %s %d" % (p, 1000 if elev else 0, pid, 1 - elev, DESTS[0][0] if dest == DESTS[1] else DESTS[1][0],
                                                              DESTS[0][1] if dest == DESTS[1] else DESTS[1][1]))
                        model_ops.append(f"attr record {p} {1 - elev} {hx(DESTS[0][0] if dest == DESTS[1] else DESTS[1][0])} {DESTS[0][1] if dest == DESTS[1] else DESTS[1][1]}")
                    obs, resp, recs = observe_ctx(stack, conn, f"h{h}_{tok}")
                    model_ops.append(f"attr ctx {p}")
                    if kind == "dead_host":
                        # the host cannot be reached: the request fails (5xx), but the record was still this connection's and is consumed
                        if recs or resp is None or resp["status"] < 500:
                            chk.disagreement("attribution", {"history": hist_desc, "at": f"dead_host@{p}"}, "5xx, nothing upstream", obs)
                        continue
                    expect_idx.append((len(model_ops) - 1, obs, f"{kind}@{p} req{j}"))
                hist_desc.append(f"{kind}@{p} elev={elev} dest={dest[0]}:{dest[1]} nreq={nreq}")
                chk.count("op_" + kind)
                if kind == "dead_host":
                    # … so a direct connection reusing the port right away has no record
                    got_ports = stack.ctl("ports")
                    model_ops.append("attr ports")
                    expect_idx.append((len(model_ops) - 1, got_ports, f"ports after {kind}@{p}"))
                    live.pop(p).close(rst=True)
                    model_ops.append(f"attr close {p}")
                    time.sleep(0.01)
                    try:
                        conn = e2e.ClientConn(p, 6.0)
                    except OSError:
                        continue
                    live[p] = conn
                    model_ops.append(f"attr accept {p} {p}")
                    tok += 1
                    obs, resp, recs = observe_ctx(stack, conn, f"h{h}_{tok}")
                    model_ops.append(f"attr ctx {p}")
                    expect_idx.append((len(model_ops) - 1, obs, f"direct reuse after dead_host@{p}"))
                    hist_desc.append(f"direct-after-dead@{p}")
                # the stand-in map after the accept
                got_ports = stack.ctl("ports")
                model_ops.append("attr ports")
                expect_idx.append((len(model_ops) - 1, got_ports, f"ports after {kind}@{p}"))
            for c in live.values():
                c.close(rst=True)
            trace = stack.ctl("trace")
            outs = vlib.run_driver(model_ops)
            bad = [(d, outs[i], o) for (i, o, d) in expect_idx if outs[i] != o]
            chk.case(nontrivial_key=("hist", h, tuple(hist_desc)))
            if bad:
                # oracle: is it a property violation (wrong identity / not refused) or only a model mismatch?
                for d, want, got in bad[:3]:
                    if want == "U" and (got.startswith("A") or got.startswith("other:")):
                        # anything but 421 means the connection was given an identity and a destination (a 502 = its host is down)
                        chk.violation("a connection without a fresh kernel record was served with an identity", {"history": hist_desc, "at": d, "trace": trace},
                                      expected=want, observed=got)
                    elif want.startswith("A") and got.startswith("A") and want != got:
                        chk.violation("a connection was served with another connection's identity/destination", {"history": hist_desc, "at": d, "trace": trace},
                                      expected=want, observed=got)
                    else:
                        chk.disagreement("attribution", {"history": hist_desc, "at": d, "trace": trace}, want, got)
            if h == 0:
                chk.sample({"history": hist_desc, "model_ops": model_ops[:12], "hook_trace": trace})
        # many connections accepted concurrently with distinct identities
        rounds = 3 if chk.tier == "quick" else 40
        for rd in range(rounds):
            n = rng.pick([8, 16, 32, 64])
            stack.ctl("auditclear")
            base = 52000 + rd * 70
            specs = []
            for i in range(n):
                elev = rng.below(2)
                dest = rng.pick(DESTS)
                attributed = rng.chance(4, 5)
                if attributed:
                    stack.ctl("audit %d %d %d %d %s %d" % (base + i, 0 if elev else 1000, pid, elev, dest[0], dest[1]))
                specs.append((base + i, elev, dest, attributed))
            conns = [None] * n
            res = [None] * n

            def work(i):
                try:
                    c = e2e.ClientConn(specs[i][0], 10.0)
                    conns[i] = c
                    resp = c.request(req_raw(f"c{rd}_{i}"), b"GET", 10.0)
                    res[i] = resp
                except OSError as e:
                    res[i] = e
            ths = [threading.Thread(target=work, args=(i,)) for i in range(n)]
            for t in ths: t.start()
            for t in ths: t.join()
            recs = {e2e.hget(r["headers"], b"x-verif-token"): r for r in stack.hosts.take() if not r.get("partial")}
            for i, (port, elev, dest, attributed) in enumerate(specs):
                chk.case(nontrivial_key=("conc", rd, i))
                chk.count("concurrent_connections")
                r = res[i]
                rec = recs.get(f"c{rd}_{i}".encode())
                if isinstance(r, Exception) or r is None:
                    chk.disagreement("attribution-concurrent", {"round": rd, "i": i}, "a response", str(r))
                    continue
                if not attributed:
                    if r["status"] != 421 or rec is not None:
                        chk.violation("unattributed connection served while others were being accepted", {"round": rd, "n": n, "port": port},
                                      expected=421, observed=r["status"])
                else:
                    cl = (rec and e2e.hget(rec["headers"], b"x-ms-azure-host-claims")) or b""
                    got = (1 if b'"true"' in cl else 0, e2e.HOSTS[rec["host"]] if rec else None)
                    if r["status"] != 200 or got != (elev, dest):
                        chk.violation("concurrently accepted connection evaluated with another identity/destination",
                                      {"round": rd, "n": n, "port": port}, expected=(elev, dest), observed=(r["status"], got))
            for c in conns:
                if c: c.close(rst=True)
            left = stack.ctl("ports")
            if left != "-":
                chk.violation("audit records left behind after all connections were accepted", {"round": rd}, expected="-", observed=left)
        exec_between_connections(chk, stack)
        user_per_connection(chk, stack, callers)
        many_open_connections(chk, stack, callers)
        slow_host_then_port_reuse(chk, stack, callers)
    finally:
        stack.close()
    chk.coverage["rule"] = ("histories of 4-14 connections over 4 source ports: attributed, direct, immediate port reuse without/with a fresh "
                            "record (RST close), keep-alive with 2-20 requests, a later kernel record for the port of a live connection; "
                            "stand-in map and lookup/remove trace read after every accept; then 8-64 connections accepted concurrently with "
                            "distinct identities/destinations")
    chk.assumptions += ["the kernel writes a record before the connection reaches the listener (hook order); the window between two "
                        "connects reusing a port before the first accept is kernel timing and is not modelled"]
