"""C08 a key is never latched at the host unless the guest can recover it.
Crash points: the REAL key keeper runs in a child process; `strace -f -p <pid> -e inject=<fs+socket syscalls>:signal=SIGKILL:when=N`
kills it at its N-th such syscall after the first status poll was released, for every N on the path."""
import json
import os
import re
import shutil
import signal
import subprocess
import time
import e2e
import keeper
import vlib
from vlib import hx

SYSCALLS = "openat,open,creat,write,writev,pwrite64,rename,renameat,renameat2,unlink,unlinkat,mkdir,mkdirat,chmod,fchmod,fchmodat,chown,fchown,fchownat,connect,sendto,sendmsg,recvfrom,recvmsg,read,readv,fsync,fdatasync,close,socket"
KEYS = {"G1": "11" * 32, "G2": "22" * 32}


def key_doc(g):
    return json.dumps({"authorizationScheme": "Azure-HMAC-SHA256", "guid": g, "issued": "2024-01-01T00:00:00Z", "key": KEYS[g]})


def status_doc(latched):
    return {"version": "1.0", "secureChannelState": "Wireserver", "hasRules": False, "wireserver": None, "imds": None, "hostga": None,
            "keyGuid": latched}


class Host:
    """host-side latch state driving the plans"""

    def __init__(self, scenario):
        self.scenario = scenario
        # rotation: the guest holds G1, the host has dropped its latch and will hand out G2
        # unreadable: the host regards G1 as attested but the local file is damaged (premise of the scenario, not caused by the agent)
        # lostreply: like fresh, but the reply to the first attestation is lost after the host latched the key
        # nostore: like fresh, but the key store cannot take the key (its temp file cannot be created): nothing may be latched
        self.latched = {"fresh": None, "restart": "G1", "rotation": None, "unreadable": "G1", "lostreply": None, "nostore": None}[scenario]
        self.next_key = {"fresh": "G1", "restart": "G2", "rotation": "G2", "unreadable": "G1", "lostreply": "G1", "nostore": "G1"}[scenario]
        self.lose_next_reply = scenario == "lostreply"

    def plan(self):
        return {"status": {"kind": "doc", "doc": status_doc(self.latched)}, "acquire": {"kind": "key", "guid": self.next_key, "key": KEYS[self.next_key]},
                "attest": {"kind": "lost" if self.lose_next_reply else "ok"}}

    def observe(self, calls):
        for c in calls:
            if c[0] == "attest" and c[2]:
                self.latched = c[1]
                self.lose_next_reply = False
                # a host that latched G1 hands out another key to whoever asks again
                if self.scenario == "lostreply":
                    self.next_key = "G2"


def prepare_dir(scenario, key_dir):
    os.makedirs(key_dir, exist_ok=True)
    if scenario in ("restart", "rotation"):
        open(os.path.join(key_dir, "G1.key"), "w").write(key_doc("G1"))
    if scenario == "unreadable":
        open(os.path.join(key_dir, "G1.key"), "w").write(DAMAGED)
    if scenario == "nostore":
        os.makedirs(os.path.join(key_dir, "G1.tmp"), exist_ok=True)


DAMAGED = '{"authorizationScheme": "Azure-HMAC-SHA2'


def check_dir(chk, key_dir, host, desc):
    """the invariants on the real artefacts after a kill"""
    ok = True
    for f in os.listdir(key_dir):
        if f.endswith(".key"):
            p = os.path.join(key_dir, f)
            try:
                d = json.load(open(p))
                assert "guid" in d and "key" in d
            except Exception:
                premise = host.scenario == "unreadable" and f == "G1.key" and open(p).read() == DAMAGED
                if not premise:
                    chk.violation("a truncated or corrupt file exists under a key's final name after the crash",
                                  dict(desc, file=f, content=open(p, "rb").read()[:120].decode("latin-1")))
                    ok = False
    if host.latched:
        p = os.path.join(key_dir, host.latched + ".key")
        try:
            d = json.load(open(p))
            good = d.get("guid") == host.latched and d.get("key") == KEYS[host.latched]
        except Exception:
            good = False
        still_damaged = host.scenario == "unreadable" and os.path.exists(p) and open(p).read() == DAMAGED
        if not good and not still_damaged:
            chk.violation("the host regards a key as attested but the key store does not hold it complete and readable", dict(desc, latched=host.latched))
            ok = False
    return ok


def run_once(chk, binp, scenario, n, rng, watch_writes=False):
    """returns (killed?, finished?)"""
    sd = vlib.scratch_dir("c08")
    key_dir = os.path.join(sd, "keys")
    prepare_dir(scenario, key_dir)
    host = Host(scenario)
    kp = keeper.Keeper(binp, sd=sd, key_dir=key_dir, interval_ms=15)
    desc = {"scenario": scenario, "kill_at_syscall": n, "calls": []}
    try:
        kp.wait_at_gate()
        st = None
        tracer = None
        if n is not None:
            tracer = subprocess.Popen(["strace", "-f", "-q", "-o", "/dev/null", "-p", str(kp.proc.pid), "-e", "trace=" + SYSCALLS,
                                       "-e", f"inject={SYSCALLS}:signal=SIGKILL:when={n}"], stdout=subprocess.DEVNULL, stderr=subprocess.DEVNULL)
            time.sleep(0.25)
        elif watch_writes:
            # no kill: every write-like call of the run with the path its descriptor has at that moment (strace -y)
            tracer = subprocess.Popen(["strace", "-f", "-y", "-q", "-o", os.path.join(sd, "writes.txt"), "-p", str(kp.proc.pid), "-e",
                                       "trace=write,pwrite64,writev,pwritev,ftruncate,truncate"], stdout=subprocess.DEVNULL, stderr=subprocess.DEVNULL)
            time.sleep(0.25)
        ncalls = 0
        # release iterations until the key is published or the process dies
        published = False
        for it in range(4):
            with kp.lock:
                kp.release.append(host.plan())
                kp.lock.notify_all()
            deadline = time.time() + 3.0
            while time.time() < deadline and kp.alive():
                with kp.lock:
                    if kp.pending_status > 0 and not kp.release:
                        break
                time.sleep(0.01)
            host.observe(kp.calls[ncalls:])
            ncalls = len(kp.calls)
            if not kp.alive():
                break
            # the invariant holds in every state, not only the last one: look at the directory whenever an iteration has ended
            desc["calls"] = [(c[0], c[1], c[2]) for c in kp.calls]
            if not check_dir(chk, key_dir, host, dict(desc, after_iteration=it)):
                break
            s = keeper.parse_state(kp.ctl("state"))
            if s.get("key", "-,-").split(",")[0] not in ("-", ""):
                published = True
                break
        killed = not kp.alive()
        desc["calls"] = [(c[0], c[1], c[2]) for c in kp.calls]
        if tracer:
            try:
                tracer.terminate(); tracer.wait(timeout=2)
            except Exception:
                tracer.kill()
        kp.close()
        if watch_writes:
            bad, seen = [], 0
            try:
                for line in open(os.path.join(sd, "writes.txt"), errors="replace"):
                    mm = re.search(r"\b(?:write|pwrite64|writev|pwritev|ftruncate)\(\d+<([^>]*)>", line) or re.search(r"\btruncate\(\"([^\"]*)\"", line)
                    if not mm or not mm.group(1).startswith(key_dir):
                        continue
                    seen += 1
                    if mm.group(1).endswith(".key"):
                        bad.append(line.strip()[:160])
            except OSError:
                pass
            chk.count("key_store_writes_watched", seen)
            if seen == 0:
                chk.notes.append("write watch (%s): no write into the key directory seen" % scenario)
            if bad:
                chk.violation("a truncated or corrupt file exists under a key's final name after the crash",
                              dict(desc, situation="no crash needed to see it: the file is written to while it already has its final name "
                                                   "(a crash or a reader at that moment finds it incomplete)", writes=bad[:4]),
                              expected="a key file gets its final name only after its last write", observed="written under the final name")
        chk.count(f"{scenario}_{'killed' if killed else 'survived'}")
        check_dir(chk, key_dir, host, desc)
        # ---- restart on the same directory: must converge, and without a second acquire when the host had latched
        latched_before = host.latched
        if scenario == "nostore":
            shutil.rmtree(os.path.join(key_dir, "G1.tmp"), ignore_errors=True)       # the obstacle is gone when the agent comes back
        if n is None or n % 2 == 1:
            # the wall clock was set back while the agent was down: the key files are "from the future" (recoverable all the same)
            import time as _t
            for f in os.listdir(key_dir):
                try:
                    os.utime(os.path.join(key_dir, f), (_t.time() + 3600, _t.time() + 3600))
                except OSError:
                    pass
            desc = dict(desc, clock="set back by an hour before the restart")
            chk.count("restarts_with_key_files_dated_in_the_future")
        kp2 = keeper.Keeper(binp, sd=sd, key_dir=key_dir, interval_ms=15)
        try:
            # the restarted agent has run its start-up section and waits for its first status answer: nothing it did on the way may
            # have put a partial file under a final name
            kp2.wait_at_gate()
            check_dir(chk, key_dir, host, dict(desc, after="restart, before the first poll"))
            base = len(kp2.calls)
            final = None
            for it in range(4):
                stl = kp2.step(host.plan(), kick=True)
                host.observe(kp2.calls[base:])
                if stl is None:
                    break
                s = keeper.parse_state(stl)
                g = s.get("key", "-,-").split(",")[0]
                if g not in ("-", ""):
                    final = vlib.unhx(g).decode()
                    break
            acquires = [c for c in kp2.calls if c[0] == "acquire"]
            desc2 = dict(desc, restart_calls=[(c[0], c[1], c[2]) for c in kp2.calls], latched_before_restart=latched_before, final_key=final)
            # in the unreadable-local-key scenario a new acquire is the only way back as long as the damaged file is still there
            corrupt_local = scenario == "unreadable" and not any(c[0] == "attest" and c[2] for c in kp.calls)
            if latched_before and not corrupt_local:
                if final != latched_before:
                    chk.violation("after the restart the agent does not use the key the host regards as attested", desc2,
                                  expected=latched_before, observed=final)
                if acquires:
                    chk.violation("after the restart the agent requested a new key although the attested one is in the key store", desc2)
            elif final is None:
                chk.violation("after the restart the agent did not converge to a usable key", desc2)
            check_dir(chk, key_dir, host, desc2)
        finally:
            kp2.close()
        chk.case(nontrivial_key=(scenario, n, killed, tuple((c[0], c[2]) for c in kp.calls)))
        if n is not None and n % 10 == 1:
            chk.sample(desc)
        return killed
    finally:
        shutil.rmtree(sd, ignore_errors=True)


def run(chk):
    if not e2e.in_netns():
        e2e.reexec_in_netns()
    rng = vlib.Rng(chk.seed)
    chk.prove()
    if not chk.driver():
        return
    ok, binp, out = vlib.build_harness("agent")
    if not ok:
        chk.broken.append({"kind": "harness", "name": "agent harness build", "why": out[-1500:]})
        return
    scenarios = ["fresh"] if chk.tier == "quick" else ["fresh", "restart", "rotation", "unreadable", "lostreply", "nostore"]
    if chk.tier == "quick":
        # the other scenarios once, without a kill, plus a few kill points each
        for sc in ("restart", "rotation", "unreadable", "lostreply", "nostore"):
            run_once(chk, binp, sc, None, rng)
            for n in (rng.rand_range(1, 12), rng.rand_range(13, 40)):
                run_once(chk, binp, sc, n, rng)
    for sc in ("fresh", "rotation"):
        run_once(chk, binp, sc, None, rng, watch_writes=True)
    for sc in scenarios:
        run_once(chk, binp, sc, None, rng)
        n = 1
        survived_in_a_row = 0
        while n < 400 and survived_in_a_row < 3:
            killed = run_once(chk, binp, sc, n, rng)
            survived_in_a_row = 0 if killed else survived_in_a_row + 1
            n += 1
        chk.count(f"{sc}_crash_points", n - 1 - survived_in_a_row)
    if chk.counts.get("fresh_killed", 0) < 10:
        chk.broken.append({"kind": "gate", "name": "generator sanity", "why": "fewer than 10 effective kill points on the fresh-latch path"})
    chk.coverage["rule"] = ("every N-th file-system/socket syscall of the real key keeper after its first status poll is turned into a SIGKILL (strace "
                            "inject), for N = 1.. until the process survives three times in a row, in the fresh-latch scenario on every run and in "
                            "the restart-with-key, rotation and unreadable-local-key scenarios in the thorough tier; after each kill the key "
                            "directory and the host's acquire/attest log are checked, then a fresh process on the same directory must converge")
    chk.coverage["exhaustive"] = False
    chk.assumptions += ["rename is atomic with respect to process death; durability across power loss (no fsync) is not claimed",
                        "the mock host latches a key when it answers the attest request"]
