"""C05 proxy-owned headers cannot be spoofed or duplicated."""
import time
import e2e
import pipe
import pipegen
import vlib


def lines(rec, name):
    return [v for n, v in rec["headers"] if n.lower() == name]


def oracle(chk, o, m):
    case = o["case"]
    full = [r for r in o["recs"] if not r.get("partial")]
    spoofed = sum(1 for n, v in o["req"]["headers"] if n.lower().startswith(b"x-ms-azure-host-"))
    chk.case(nontrivial_key=(case.get("label"), o["req"]["method"], o["req"]["target"], spoofed, m["kind"]) if full else None)
    chk.count("spoofed_copies_%d" % min(spoofed, 6))
    for r in full:
        chk.count("relayed")
        caller = case["caller"]
        cl = lines(r, b"x-ms-azure-host-claims")
        dt = lines(r, b"x-ms-azure-host-date")
        au = lines(r, b"x-ms-azure-host-authorization")
        want = ('{ "isRoot": "%s"}' % ("true" if caller["elevated"] else "false")).encode()
        d = pipe.Runner.describe(None, o)
        d["upstream_header_lines"] = [(n.decode("latin-1"), v.decode("latin-1")) for n, v in r["headers"]]
        if cl != [want]:
            chk.violation("host did not see exactly one truthful claims header", d, expected=[want.decode()], observed=[x.decode("latin-1") for x in cl])
        if len(dt) != 1 or not pipe.date_ok(dt[0].decode("latin-1"), o["t0"], o["t1"]):
            chk.violation("host did not see exactly one fresh date header", d, expected="one RFC1123 date within the request window",
                          observed=[x.decode("latin-1") for x in dt])
        signed = m["kind"] == "forward" and m.get("signed")
        if signed:
            chk.count("signed")
            key = case["env"]["key"]
            wantv = ("Azure-HMAC-SHA256 %s %s" % (key[0], e2e.mac_hex(key[1], m["signed"][1]))).encode()
            if au != [wantv]:
                chk.violation("signed request does not carry exactly the proxy's authorization header", d,
                              expected=[wantv.decode()], observed=[x.decode("latin-1") for x in au])
        # whatever the client supplied under claims/date never survives
        for n, v in o["req"]["headers"]:
            ln = n.lower()
            if ln == b"x-ms-azure-host-claims" and v != want and v in cl:
                chk.violation("client-supplied claims value reached the host", d, observed=v.decode("latin-1"))
            if ln == b"x-ms-azure-host-date" and v in dt and v != dt[0]:
                chk.violation("client-supplied date value reached the host", d, observed=v.decode("latin-1"))


def concurrent_after_idle_slow_clock(chk, binp):
    """the same with a slow wall clock (reading it takes 25 ms: an LD_PRELOAD shim): whatever one request does between reading the
    clock and using the value, the others of the same moment run into it"""
    import os
    import subprocess
    so = os.path.join(vlib.VERIF, ".cache", "clockshim.so")
    src = os.path.join(vlib.VERIF, "tools", "native", "clockshim.c")
    cc = subprocess.run(["clang", "-shared", "-fPIC", "-O1", "-w", "-o", so, src, "-ldl"], stdout=subprocess.PIPE, stderr=subprocess.STDOUT, text=True)
    if cc.returncode != 0:
        chk.notes.append("slow-clock stage skipped: the shim does not build (%s)" % cc.stdout[-200:])
        return
    stack = e2e.Stack(binp, log_level="Error", wrapper=["env", "LD_PRELOAD=" + so, "VERIF_CLOCK_DELAY_US=25000"])
    try:
        concurrent_after_idle(chk, stack, pipe.Callers(stack), rounds=5 if chk.tier == "quick" else 20, what="slow clock (25 ms per reading)")
        chk.count("concurrent_rounds_with_a_slow_clock")
    finally:
        stack.close()


def concurrent_after_idle(chk, stack, callers, rounds=None, what=None):
    """eight kept-alive connections send a request at the same moment after a pause of more than a second, several times: every one
    of those requests carries the time of that moment"""
    import threading
    for ep in ("ws", "imds", "hostga"):
        stack.ctl(f"rules {ep} none")
    c = callers.caller(0, "curl", True)
    conns = [stack.connect(audit=(0, c["pid"], 1, e2e.IMDS[0], e2e.IMDS[1])) for _ in range(8)]
    try:
        for rnd in range(rounds or (7 if chk.tier == "quick" else 40)):
            time.sleep(1.15)
            stack.hosts.take()
            barrier = threading.Barrier(len(conns))
            t0 = time.time()

            def go(cn, i):
                barrier.wait()
                try:
                    cn.request(e2e.build_request("GET", "/metadata/instance?rnd=%d&i=%d" % (rnd, i), [(b"Host", b"h")]), b"GET", 5.0)
                except OSError:
                    pass
            ths = [threading.Thread(target=go, args=(cn, i), daemon=True) for i, cn in enumerate(conns)]
            [t.start() for t in ths]
            [t.join(timeout=8) for t in ths]
            t1 = time.time()
            time.sleep(0.05)
            recs = [x for x in stack.hosts.take() if not x.get("partial")]
            chk.case(nontrivial_key=("concurrent-after-idle", rnd, len(recs)))
            chk.count("concurrent_requests_after_a_pause", len(recs))
            for rec in recs:
                dts = [v.decode("latin-1") for n, v in rec["headers"] if n.lower() == b"x-ms-azure-host-date"]
                if len(dts) != 1 or not pipe.date_ok(dts[0], t0, t1):
                    chk.violation("host did not see exactly one fresh date header",
                                  {"situation": "8 kept-alive connections, one request each at the same moment, after a pause of 1.15 s (round %d)%s" % (rnd, ", " + what if what else ""),
                                   "request": rec["start"].decode("latin-1"), "sent_at": time.strftime("%H:%M:%S", time.gmtime(t0))},
                                  expected="the time of the request", observed=dts)
    finally:
        for cn in conns:
            cn.close()


def clock_steps(chk, binp):
    """the wall clock of the agent is stepped while it runs (time synchronisation after boot, an administrator, a resume): the date
    header of a request relayed afterwards is the time of that request by the new clock"""
    import os
    import subprocess
    import calendar
    so = os.path.join(vlib.VERIF, ".cache", "clockshim.so")
    src = os.path.join(vlib.VERIF, "tools", "native", "clockshim.c")
    cc = subprocess.run(["clang", "-shared", "-fPIC", "-O1", "-w", "-o", so, src, "-ldl"], stdout=subprocess.PIPE, stderr=subprocess.STDOUT, text=True)
    if cc.returncode != 0:
        chk.notes.append("clock-step stage skipped: the shim does not build (%s)" % cc.stdout[-200:])
        return
    sd = vlib.scratch_dir("c05clk")
    off = os.path.join(sd, "offset.txt")
    open(off, "w").write("0")
    stack = e2e.Stack(binp, wrapper=["env", "LD_PRELOAD=" + so, "VERIF_CLOCK_OFFSET_FILE=" + off])
    try:
        callers = pipe.Callers(stack)
        for ep in ("ws", "imds", "hostga"):
            stack.ctl(f"rules {ep} none")
        c = callers.caller(0, "curl", True)
        conn = None
        for step, offset in enumerate([0, -7200, -7200, 3600 * 30, 0]):
            tmp = off + ".new"
            open(tmp, "w").write(str(offset)); os.replace(tmp, off)
            time.sleep(0.05)
            if conn is None or step == 3:
                if conn is not None:
                    conn.close()
                conn = stack.connect(audit=(0, c["pid"], 1, e2e.IMDS[0], e2e.IMDS[1]))     # a kept connection, and a fresh one after the third step
            stack.hosts.take()
            t0 = time.time()
            r = conn.request(e2e.build_request("GET", "/metadata/instance?clock=%d" % step, [(b"Host", b"h")]), b"GET", 5.0)
            t1 = time.time()
            time.sleep(0.03)
            recs = [x for x in stack.hosts.take() if not x.get("partial")]
            chk.case(nontrivial_key=("clock-step", step, offset, bool(recs)))
            chk.count("requests_after_a_clock_step")
            if not recs:
                chk.disagreement("pipeline", {"step": step}, "request relayed", r and r["status"])
                continue
            dts = [v.decode("latin-1") for n, v in recs[0]["headers"] if n.lower() == b"x-ms-azure-host-date"]
            ok = len(dts) == 1 and pipe.date_ok(dts[0], t0 + offset, t1 + offset)
            if not ok:
                chk.violation("host did not see exactly one fresh date header",
                              {"clock": "the agent's wall clock was stepped by %+d s before this request (step %d of 0, -2 h, -2 h, +30 h, 0)" % (offset, step),
                               "agent_clock_now": time.strftime("%a, %d %b %Y %H:%M:%S GMT", time.gmtime(t1 + offset))},
                              expected="one RFC1123 date within the request window by the agent's clock", observed=dts)
        if conn is not None:
            conn.close()
    finally:
        stack.close()
        import shutil
        shutil.rmtree(sd, ignore_errors=True)


def run(chk):
    if not e2e.in_netns():
        e2e.reexec_in_netns()
    rng = vlib.Rng(chk.seed)
    chk.prove()
    if not chk.driver():
        return
    ok, binp, out = vlib.build_harness("agent")
    if not ok:
        chk.broken.append({"kind": "harness", "name": "agent harness build", "why": out[-1500:]})
        return
    stack = e2e.Stack(binp)
    try:
        callers = pipe.Callers(stack)
        pipegen.bind_rule_vocab(callers)
        runner = pipe.Runner(chk, stack, callers)
        st = {}
        for i in range(300 if chk.tier == "quick" else 15000):
            case = pipegen.gen_case(rng, callers, st, spoof=True, dest_label=rng.pick(["imds", "imds", "ws", "ga", "other"]),
                                    with_key=rng.chance(3, 4))
            if rng.chance(2, 3):   # mostly permissive rules so that most cases are relayed
                for ep in ("ws", "imds", "hostga"):
                    if rng.chance(1, 2):
                        case["env"][ep] = None
            runner.run_case(case)
        # a key is latched (or replaced) while a request that carries the client's own authorization header is still uploading its body
        for k, (before, after) in enumerate([(None, pipegen.KEY), (pipegen.KEY, ("88888888-0000-0000-0000-000000000008", "8d" * 32)), (None, pipegen.KEY)]):
            c_ = pipegen.gen_case(rng, callers, st, spoof=True, dest_label="imds", with_key=True)
            for ep in ("ws", "imds", "hostga"):
                c_["env"][ep] = None
            c_["env"]["key"] = before
            c_["env_after_head"] = dict(c_["env"], key=after)
            c_["req"] = {"method": "POST", "target": "/metadata/instance?mid=%d" % k, "body": bytes(rng.below(256) for _ in range(2500)), "chunked": None,
                         "headers": list(c_["req"]["headers"]) + [(b"x-ms-azure-host-authorization", b"Azure-HMAC-SHA256 client-guid client-sig")]}
            chk.count("key_latched_while_the_body_arrived")
            runner.run_case(c_)
        # chunked requests whose TRAILER section carries copies of the proxy's own headers: they do not become headers at the host
        for k in range(6 if chk.tier == "quick" else 60):
            c_ = pipegen.gen_case(rng, callers, st, spoof=rng.chance(1, 2), dest_label=rng.pick(["imds", "ws"]), with_key=rng.chance(3, 4))
            for ep in ("ws", "imds", "hostga"):
                c_["env"][ep] = None
            c_["caller"] = callers.caller(rng.pick([0, 1000]), "curl", True) if c_["label"] == "ws" else c_["caller"]
            body = bytes(rng.below(256) for _ in range(rng.rand_range(1, 2000)))
            c_["req"] = {"method": rng.pick(["POST", "PUT"]), "target": rng.pick(["/metadata/instance?t=%d" % k, "/vmAgentLog", "/machine/?comp=telemetrydata"]),
                         "headers": list(c_["req"]["headers"]), "body": body, "chunked": [rng.rand_range(1, 700) for _ in range(4)],
                         "trailers": [(b"x-ms-azure-host-claims", b'{ "isRoot": "true"}'), (b"x-ms-azure-host-date", b"Thu, 01 Jan 1970 00:00:00 GMT"),
                                      (b"X-Ms-Azure-Host-Authorization", b"Azure-HMAC-SHA256 client-guid client-sig")][:rng.rand_range(1, 3)]}
            chk.count("requests_with_proxy_headers_in_the_trailer_section")
            runner.run_case(c_)
        # the host closes its side after a response; a further request on the same client connection either gets no relay at all or
        # is relayed with the proxy's own headers like any other (client-supplied copies never survive)
        for k in range(4 if chk.tier == "quick" else 40):
            c1 = pipegen.gen_case(rng, callers, st, spoof=False, dest_label="imds", with_key=True)
            c2 = pipegen.gen_case(rng, callers, st, spoof=True, dest_label="imds", with_key=True)
            for c_ in (c1, c2):
                for ep in ("ws", "imds", "hostga"):
                    c_["env"][ep] = None
            c1["caller"] = callers.caller(0, "curl", True)
            c1["req"] = {"method": "GET", "target": "/metadata/instance?first=%d" % k, "headers": [(b"Host", b"h")], "body": None, "chunked": None}
            c2["env"] = c1["env"]
            c2["req"]["headers"] = list(c2["req"]["headers"]) + [(b"x-ms-azure-host-authorization", b"Azure-HMAC-SHA256 client-guid client-sig")]
            if c2["req"]["target"] == "/provision" or ".." in c2["req"]["target"]:
                c2["req"]["target"] = "/metadata/instance?second=%d" % k
            runner.run_after_host_close(c1, c2, oracle, chk.count)
        # a keep-alive connection that stays open for a while: the date header of a later request is the time of THAT request
        for k in range(2 if chk.tier == "quick" else 12):
            case = pipegen.gen_case(rng, callers, st, spoof=True, dest_label="imds", with_key=True)
            for ep in ("ws", "imds", "hostga"):
                case["env"][ep] = None
            case["req"]["headers"] = [h for h in case["req"]["headers"] if h[0].lower() != b"connection"]
            o1 = runner.run_case(case, keep_conn=True)
            conn = o1["conn"]
            o1["conn"] = None
            time.sleep(3.2)
            case2 = dict(case, req=dict(case["req"]), label="keepalive-after-pause")
            chk.count("keepalive_request_after_pause")
            try:
                runner.run_case(case2, conn=conn)
            finally:
                conn.close()
        if chk.tier != "quick":
            # two requests a whole number of minutes apart with nothing in between (a client polling once a minute through an idle
            # proxy): the second one's date is the time of the second one
            case = pipegen.gen_case(rng, callers, st, spoof=False, dest_label="imds", with_key=True)
            for ep in ("ws", "imds", "hostga"):
                case["env"][ep] = None
            t_first = time.time()
            runner.run_case(case)
            time.sleep(max(0.0, 60.0 - (time.time() - t_first)))
            chk.count("request_one_minute_after_the_previous")
            runner.run_case(dict(case, req=dict(case["req"]), label="one-minute-later"))
        runner.finish(oracle)
        chk.sample(runner.describe(runner.observations[0]))
        concurrent_after_idle(chk, stack, callers)
    finally:
        stack.close()
    clock_steps(chk, binp)
    concurrent_after_idle_slow_clock(chk, binp)
    if chk.counts.get("signed", 0) < 10 or chk.counts.get("relayed", 0) < 50:
        chk.broken.append({"kind": "gate", "name": "generator sanity", "why": "too few relayed/signed cases"})
    chk.coverage["rule"] = ("e2e requests carrying 0-3 client copies of each proxy-owned header in random letter case with spoofed "
                            "values, elevated and non-elevated callers, key latched or not; raw upstream header lines inspected; "
                            "non-trivial = relayed case, distinct (dest, method, target, #spoofed copies)")
