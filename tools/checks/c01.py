"""C01 complete mediation. proof: Gpa.Props.C01 over the Pipeline model; correspondence: the real
ProxyServer in a private netns with mock metadata hosts; oracle: `specMayRelay` (the property's
sentence) against what the mock hosts actually received."""
import e2e
import pipe
import pipegen
import vlib

NEEDS_NETNS = True
REFUSALS = (404, 421, 500, 403)


def oracle(chk, o, m):
    resp = o["resp"]
    relayed = sum(o["bytes"].values()) > 0
    spec = m.get("spec_may_relay")
    case = o["case"]
    label = case.get("label")
    chk.count("dest_" + str(label))
    chk.count("model_" + m["kind"] + (str(m.get("status")) if m["kind"] == "respond" else ""))
    if relayed:
        chk.count("relayed")
    nontrivial = m["kind"] in ("respond", "forward")
    chk.case(nontrivial_key=(label, o["req"]["method"], o["req"]["target"], str(case.get("caller") and case["caller"]["user"]),
                              m["kind"], m.get("status")) if nontrivial else None)
    if spec is None:
        return
    if relayed and not spec:
        chk.violation("bytes reached a metadata host although the connection was not attributed / the path had '..' / "
                      "the policy does not authorize the caller", pipe.Runner.describe(None, o), expected="no upstream bytes",
                      observed=o["bytes"])
    if not spec and m["kind"] not in ("provision",) and not (m["kind"] == "respond" and m.get("status") == 413):
        if resp is None or resp["status"] not in REFUSALS:
            chk.violation("refused request did not get one of 404/421/500/403",
                          pipe.Runner.describe(None, o), expected=REFUSALS, observed=resp and resp["status"])


def run(chk):
    if not e2e.in_netns():
        e2e.reexec_in_netns()
    rng = vlib.Rng(chk.seed)
    chk.prove()
    if not chk.driver():
        return
    ok, binp, out = vlib.build_harness("agent")
    if not ok:
        chk.broken.append({"kind": "harness", "name": "agent harness build", "why": out[-1500:]})
        return
    stack = e2e.Stack(binp)
    try:
        callers = pipe.Callers(stack)
        pipegen.bind_rule_vocab(callers)
        runner = pipe.Runner(chk, stack, callers)
        st = {}
        n = 300 if chk.tier == "quick" else 12000
        for i in range(n):
            case = pipegen.gen_case(rng, callers, st)
            if case.get("caller") is not None and rng.chance(1, 6):
                # an attributed connection, then a DIRECT connection to the listener from the same source port: the second one
                # has no attribution record of its own (C07 makes the first record single-use) and must be refused
                if rng.chance(1, 3):
                    # ... also when the first connection's host could not be reached (its record is used up all the same)
                    case["dest"], case["label"] = (e2e.OTHER[0], 81), "other"
                    chk.count("attributed_connection_to_unreachable_host")
                o1 = runner.run_case(case, keep_conn=True)
                port = o1["conn"].port
                o1["conn"].close(rst=True)
                o1["conn"] = None
                case2 = pipegen.gen_case(rng, callers, st)
                case2["caller"], case2["dest"], case2["srcport"], case2["label"] = None, None, port, "direct-reusing-port"
                chk.count("direct_connection_reusing_an_attributed_port")
                try:
                    runner.run_case(case2)
                except OSError:
                    chk.count("port_reuse_not_possible")
                continue
            if case.get("caller") is not None and rng.chance(1, 8):
                # two requests on one kept-alive connection with the policy replaced in between: each is judged under the
                # policy in force when it arrives
                o1 = runner.run_case(case, keep_conn=True)
                conn = o1["conn"]
                o1["conn"] = None
                if o1["resp"] is not None and conn is not None and o1["resp"]["status"] < 400 and \
                        (e2e.hget(o1["resp"]["headers"], b"connection") or b"").lower() != b"close":
                    case2 = pipegen.gen_case(rng, callers, st)
                    case2["caller"], case2["dest"], case2["label"] = case["caller"], case["dest"], case.get("label")
                    case2["req"]["target"] = case["req"]["target"] if rng.chance(1, 2) else case2["req"]["target"]
                    chk.count("policy_replaced_on_open_connection")
                    try:
                        o2 = runner.run_case(case2, conn=conn)
                        if o2["resp"] is None and not o2["recs"]:
                            # the listener had already closed the kept connection: nothing was observed
                            runner.observations.remove(o2)
                            chk.count("kept_connection_was_closed")
                    except OSError:
                        pass
                if conn is not None:
                    conn.close()
                continue
            runner.run_case(case)
        # one kept-alive connection asking for the same path with different query strings (the rules tell them apart), and the rules
        # replaced between two identical requests: every request is judged on its own, under the rules in force when it arrives
        for sess in pipegen.query_rule_sessions(callers):
            done = runner.run_session(sess, chk.count)
            chk.count("same_path_other_query_requests", len(done))
        for c_ in pipegen.process_name_cases(callers):
            runner.run_case(c_)
            chk.count("long_process_name_cases")
        from checks import c07
        c07.slow_host_then_port_reuse(chk, stack, callers, what="refused request did not get one of 404/421/500/403")
        runner.finish(oracle)
        if stack.panics():
            chk.notes.append("panics observed: " + "; ".join(stack.panics()[:3]))
        o = runner.observations[3]
        chk.sample(runner.describe(o))
        chk.sample(runner.describe(runner.observations[-1]))
    finally:
        stack.close()
    # a request that arrives while a poll is replacing the rule set
    from checks import c09
    c09.request_during_rule_change(chk, binp, what="bytes reached a metadata host although the connection was not attributed / the path had '..' / the "
                                                    "policy could not be looked up / the policy does not authorize the caller")
    # the policy cannot be looked up (the actor holding it has died): nothing is relayed, the client gets an error status
    for ob in [o_ for first in ("ws", "imds", "ws-elevated") for o_ in pipe.rules_lookup_fails(binp, chk.count, first)]:
        chk.case(nontrivial_key=("rules-lookup-fails", ob["label"], ob["elevated"], ob["actor"], ob["status"]))
        if ob["upstream_bytes"]:
            chk.violation("bytes reached a metadata host although the connection was not attributed / the path had '..' / the policy could not be "
                          "looked up / the policy does not authorize the caller", ob, expected="no upstream bytes", observed=ob["upstream_bytes"])
        elif ob["status"] not in REFUSALS:
            chk.violation("refused request did not get one of 404/421/500/403", ob, expected=REFUSALS, observed=ob["status"])
    for k in ("relayed", "model_respond403", "model_respond421", "model_respond404"):
        if chk.counts.get(k, 0) == 0:
            chk.broken.append({"kind": "gate", "name": "generator sanity", "why": f"branch {k} never exercised"})
    chk.coverage["rule"] = ("seeded cases: {direct, attributed to WireServer/HostGA/IMDS/self/other} x callers (root/non-root, "
                            "4 executables) x rule documents per endpoint (C02 generator, 3 modes x defaults, or none) x URLs "
                            "(matching/non-matching, '..', /provision, exempt) x methods/bodies; every case runs on the real "
                            "listener with byte-recording mock hosts; non-trivial = distinct (dest,method,target,user,outcome)")
    chk.assumptions += ["rules-lookup failure (500) is not reachable through the public setters and is covered by the theorem only",
                        "claims lookup never fails on Linux (unknown uid gives user 'undefined'), so 421-for-no-claims is theorem-only"]
