"""C10 the key id in a signature always names the key that produced the MAC."""
import threading
import time
import e2e
import pipe
import vlib
from vlib import hx, unhx
from checks import c04

KEYS = {"aaaaaaaa-0000-0000-0000-000000000001": "1a" * 32, "bbbbbbbb-0000-0000-0000-000000000002": "2b" * 32,
        "cccccccc-0000-0000-0000-000000000003": "3c" * 48}       # one secret longer than 256 bits: the MAC is under all of it
K1, K2, K3 = list(KEYS)
# a latched key whose secret is not hex text (a damaged key file read back): nothing can be signed with it
KBAD = "dddddddd-0000-0000-0000-00000000000d"
KEYS_ALL = dict(KEYS, **{KBAD: "not-hex-" + "z" * 56})
ROUTES = ["proxy", "goalstate", "sharedconfig", "imds"]
SPOOF = ("Azure-HMAC-SHA256 %s %s" % (K2, "ab" * 32)).encode()


def do_sign(stack, callers, route, token):
    """trigger one signed request on the given route; returns the requests the mock hosts received"""
    stack.hosts.take()
    if route == "proxy":
        c = callers.caller(0, "curl", True)
        conn = stack.connect(audit=(0, c["pid"], 1, e2e.IMDS[0], e2e.IMDS[1]))
        # the client brings an authorization header of its own, naming a key the agent may hold with a MAC that is not that key's
        conn.request(e2e.build_request("GET", "/metadata/instance?tok=" + token,
                                       [(b"Host", b"h"), (b"x-ms-azure-host-authorization", SPOOF)]), b"GET", 5.0)
        conn.close()
    elif route == "imds":
        stack.ctl(f"sign imds {e2e.IMDS[0]} {e2e.IMDS[1]}")
    else:
        stack.ctl(f"sign {route} {e2e.WS[0]} {e2e.WS[1]}")
    time.sleep(0.02)
    return [r for r in stack.hosts.take() if not r.get("partial")]


def verify(rec):
    """(announced guid, mac ok?) or (None, None) if the request is unsigned"""
    au = [v for n, v in rec["headers"] if n.lower() == b"x-ms-azure-host-authorization"]
    if not au:
        return None, None, None
    parts = au[0].decode("latin-1").split(" ")
    if len(au) == 1 and au[0] == SPOOF:
        # the agent did not sign (no usable key): the client's own header is relayed as the client sent it - not a header the agent
        # emits (C05 scopes its removal to requests the proxy signs)
        return None, None, None
    if len(au) > 1:
        return parts, False, "%d authorization headers" % len(au)
    if len(parts) != 3:
        return parts, False, "malformed"
    target = rec["target"].decode("latin-1")
    path, _, q = target.partition("?")
    hs = [(n.decode("latin-1"), v) for n, v in rec["headers"]]
    line = c04.model_line(rec["method"].decode(), path, q if "?" in target else None, hs, rec["body"])
    canon = unhx(vlib.run_driver([line])[0].split(" ")[0])
    guid = parts[1]
    if guid not in KEYS:
        return guid, False, "unknown key id"
    ok = e2e.mac_hex(KEYS[guid], canon) == parts[2]
    producer = [g for g, k in KEYS.items() if e2e.mac_hex(k, canon) == parts[2]]
    return guid, ok, (producer[0] if producer else "no known key")


def attest_route(chk, binp):
    """the fifth signing route: the key keeper's own attestation request, and what it latches. The real key keeper acquires
    keys from the mock host; the id it announces (on the attestation, and afterwards on proxied requests) must be the id the
    host issued together with the key that made the MAC"""
    import os
    import keeper
    stack = e2e.Stack(binp)
    try:
        callers = pipe.Callers(stack)
        for ep in ("ws", "imds", "hostga"):
            stack.ctl(f"rules {ep} none")
        kp = keeper.Keeper(None, sd=stack.sd, attach=stack, interval_ms=15)

        def doc(guid):
            return {"version": "1.0", "secureChannelState": "Wireserver", "keyGuid": guid}

        def attests(since):
            out = []
            for c in kp.calls[since:]:
                if c[0] == "attest":
                    req = c[3]
                    out.append({"method": req["method"].encode(), "target": req["target"].encode("latin-1"), "headers": req["headers"],
                                "body": req["body"], "start": (req["method"] + " " + req["target"]).encode("latin-1")})
            return out
        steps = [
            ("first latch", doc(None), K1, None),
            # the host names a key the guest has no file for: the guest asks again and the host hands out yet another key
            ("the host names a key the guest does not have and issues another", doc(K3), K2, None),
            ("rotation announced by the host", doc(None), K3, None),
            ("steady state", "latched", None, None),
        ]
        latched = None
        for what, d, newkey, remove in steps:
            if remove:
                try:
                    os.remove(os.path.join(kp.key_dir, remove + ".key"))
                except OSError:
                    pass
            if d == "latched":
                d = doc(latched)
            plan = {"status": {"kind": "doc", "doc": d}, "attest": {"kind": "ok"}}
            if newkey:
                plan["acquire"] = {"kind": "key", "guid": newkey, "key": KEYS[newkey]}
            n0 = len(kp.calls)
            stt = kp.step(plan, kick=True)
            chk.case(nontrivial_key=("attest-route", what))
            if stt is None:
                chk.broken.append({"kind": "harness", "name": "attest-route", "why": "no next poll after: " + what})
                break
            for r in attests(n0):
                g, okmac, prod = verify(r)
                chk.count("attest_requests")
                latched = newkey
                if g is None or not okmac:
                    chk.violation("the attestation request announces a key id that did not produce its MAC", {"step": what, "announced": g, "mac_made_with": prod,
                                                                                                          "host_issued": newkey})
                elif g != newkey:
                    chk.violation("the attestation request announces another key id than the host issued with this key", {"step": what}, expected=newkey, observed=g)
            # what the agent now signs proxied requests with
            recs = do_sign(stack, callers, "proxy", "att" + what[:3])
            for r in recs:
                g, okmac, prod = verify(r)
                if g is not None and not okmac:
                    chk.violation("authorization header announces a key id that did not produce the MAC",
                                  {"route": "proxy, after key keeper step: " + what, "announced": g, "mac_made_with": prod})
        kp.close()
    finally:
        stack.close()


def set_key(stack, guid):
    if guid is None:
        stack.ctl("key none")
    else:
        stack.ctl(f"key {hx(guid)} {hx(KEYS_ALL[guid])}")


def run(chk):
    if not e2e.in_netns():
        e2e.reexec_in_netns()
    rng = vlib.Rng(chk.seed)
    chk.prove()
    if not chk.driver():
        return
    ok, binp, out = vlib.build_harness("agent")
    if not ok:
        chk.broken.append({"kind": "harness", "name": "agent harness build", "why": out[-1500:]})
        return
    stack = e2e.Stack(binp)
    try:
        callers = pipe.Callers(stack)
        for ep in ("ws", "imds", "hostga"):
            stack.ctl(f"rules {ep} none")
        tok = 0
        # ---- (A) the signer program of every real route = the model's single-message program
        for route in ROUTES:
            set_key(stack, K1)
            time.sleep(0.05)
            stack.ctl("ktrace")
            tok += 1
            recs = do_sign(stack, callers, route, "a%d" % tok)
            tr = stack.ctl("ktrace")
            reads = [x for x in tr.split(",") if x == "GetKey"]
            chk.case(nontrivial_key=("program", route))
            chk.count("program_checks")
            if len(reads) != 1:
                chk.disagreement("signer-program", {"route": route, "actor_trace": tr}, "one GetKey message per signature (model program [readPair])",
                                 "%d GetKey messages" % len(reads))
            for r in recs:
                g, okmac, prod = verify(r)
                if g is not None and not okmac:
                    chk.violation("authorization header announces a key id that did not produce the MAC", {"route": route, "announced": g, "mac_made_with": prod})
        # ---- (B) keeper operations placed between the signer's messages (hook H3)
        placements = [1, 2, 3] if chk.tier == "quick" else [1, 2, 3, 4]
        for route in ROUTES:
            for nth in placements:
                for keeper_op in ("rotate", "clear"):
                    set_key(stack, K1)
                    time.sleep(0.03)
                    if keeper_op == "rotate":
                        stack.ctl(f"khook {nth} {hx(K2)} {hx(KEYS[K2])}")
                    else:
                        stack.ctl(f"khook {nth} - -")
                    tok += 1
                    recs = do_sign(stack, callers, route, "b%d" % tok)
                    stack.ctl("khook off")
                    time.sleep(0.06)
                    chk.case(nontrivial_key=("placed", route, nth, keeper_op))
                    chk.count("placed_schedules")
                    for r in recs:
                        g, okmac, prod = verify(r)
                        chk.count("signed" if g is not None else "unsigned")
                        if g is not None and not okmac:
                            chk.violation("authorization header announces a key id that did not produce the MAC",
                                          {"route": route, "schedule": f"{keeper_op} during the signer's GetKey message #{nth}", "announced": g,
                                           "mac_made_with": prod, "request": r["start"].decode("latin-1")})
        # ---- (B'') the latched key cannot be used (its secret is not hex) and is replaced while a request is on its way: whatever
        # is sent announces the key that made its MAC (or goes out without a signature)
        for route in ROUTES:
            for nth in (1, 2, 3):
                set_key(stack, KBAD)
                time.sleep(0.03)
                stack.ctl(f"khook {nth} {hx(K2)} {hx(KEYS[K2])}")
                tok += 1
                recs = do_sign(stack, callers, route, "n%d" % tok)
                stack.ctl("khook off")
                time.sleep(0.05)
                chk.case(nontrivial_key=("placed-unusable-key", route, nth))
                chk.count("placed_schedules_unusable_key")
                for r in recs:
                    g, okmac, prod = verify(r)
                    chk.count("signed" if g is not None else "unsigned")
                    if g is not None and not okmac:
                        chk.violation("authorization header announces a key id that did not produce the MAC",
                                      {"route": route, "schedule": f"latched key with a non-hex secret, rotation during GetKey message #{nth}", "announced": g,
                                       "mac_made_with": prod, "request": r["start"].decode("latin-1")})
        # ---- (B') the same placements while the host REFUSES the agent's own requests (401/403/500/503): whatever the agent sends in
        # answer to a refusal (a second attempt, if it makes one) announces the key that made its MAC, too
        saved = dict(stack.hosts.default_plan)
        for route in ("goalstate", "sharedconfig", "imds"):
            for status in (401, 403, 500, 503):
                for nth in (1, 2, 3):
                    stack.hosts.default_plan = dict(saved, status=status, reason="X", body=b"refused")
                    set_key(stack, K1)
                    time.sleep(0.03)
                    stack.ctl(f"khook {nth} {hx(K2)} {hx(KEYS[K2])}")
                    tok += 1
                    recs = do_sign(stack, callers, route, "r%d" % tok)
                    time.sleep(0.05)
                    recs += [r for r in stack.hosts.take() if not r.get("partial")]
                    stack.ctl("khook off")
                    time.sleep(0.03)
                    chk.case(nontrivial_key=("placed-refused", route, status, nth, len(recs)))
                    chk.count("placed_schedules_host_refuses")
                    chk.count("requests_seen_while_host_refuses", len(recs))
                    for r in recs:
                        g, okmac, prod = verify(r)
                        if g is not None and not okmac:
                            chk.violation("authorization header announces a key id that did not produce the MAC",
                                          {"route": route, "schedule": f"host answers {status}; rotation during GetKey message #{nth}", "announced": g,
                                           "mac_made_with": prod, "request": r["start"].decode("latin-1"), "requests_sent": len(recs)})
        stack.hosts.default_plan = saved
        # ---- (C) free-running concurrency: signers on all routes while the keeper rotates / clears / re-latches
        rounds = 2 if chk.tier == "quick" else 40
        for rd in range(rounds):
            stop = [False]

            def rotator():
                r2 = vlib.Rng(chk.seed * 1000 + rd)
                while not stop[0]:
                    set_key_threadsafe(r2.pick([K1, K2, K3, None, K1, K2]))
                    time.sleep(0.002)
            lock = threading.Lock()

            def set_key_threadsafe(g):
                with lock:
                    set_key(stack, g)
            # the control pipe is not thread-safe: serialise rotations and `sign` ops through one lock; proxied requests go over sockets
            th = threading.Thread(target=rotator)
            th.start()
            c = callers.caller(0, "curl", True)
            conns = []
            for i in range(8):
                with lock:
                    conns.append(stack.connect(audit=(0, c["pid"], 1, e2e.IMDS[0], e2e.IMDS[1])))

            def client(i):
                for j in range(12):
                    conns[i].request(e2e.build_request("GET", f"/metadata/instance?c={rd}_{i}_{j}", [(b"Host", b"h")]), b"GET", 5.0)
            cts = [threading.Thread(target=client, args=(i,)) for i in range(8)]
            for t in cts: t.start()
            for j in range(6):
                with lock:
                    stack.ctl(f"sign {rng.pick(['goalstate', 'sharedconfig'])} {e2e.WS[0]} {e2e.WS[1]}")
            for t in cts: t.join()
            stop[0] = True
            th.join()
            for cn in conns: cn.close()
            time.sleep(0.05)
            recs = [r for r in stack.hosts.take() if not r.get("partial")]
            for r in recs:
                g, okmac, prod = verify(r)
                chk.case(nontrivial_key=("free", rd, r["start"]))
                chk.count("free_signed" if g is not None else "free_unsigned")
                if g is not None and not okmac:
                    chk.violation("authorization header announces a key id that did not produce the MAC (free-running schedule)",
                                  {"round": rd, "announced": g, "mac_made_with": prod, "request": r["start"].decode("latin-1")})
        chk.sample({"routes": ROUTES, "placements": placements, "keys": list(KEYS)})
    finally:
        stack.close()
    attest_route(chk, binp)
    if chk.counts.get("signed", 0) == 0:
        chk.broken.append({"kind": "gate", "name": "generator sanity", "why": "no signed request observed in the placed schedules"})
    chk.coverage["rule"] = ("4 signing routes (proxied request, get_goalstate, get_shared_config, get_imds_instance_info): the H3 message trace of "
                            "each route against the model's signer program; a rotation or clear placed (through H3's inject point) during "
                            "the signer's 1st..3rd GetKey message; free-running rounds of 8 keep-alive clients plus agent calls while the key is "
                            "rotated/cleared/re-latched every 2 ms; every received MAC checked against the key registered for the announced id")
    chk.assumptions += ["the actor handles one message at a time in arrival order; scheduling below message granularity is tokio's"]
