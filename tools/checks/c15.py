"""C15 request bodies above the size limit are refused and never relayed."""
import socket
import time
import e2e
import pipe
import pipegen
import vlib

LOW = 100 * 1024
LARGE = 100 * 1024 * 1024
EXEMPT = [("PUT", "/vmAgentLog"), ("PUT", "/VMAGENTLOG"), ("POST", "/machine/?comp=telemetrydata"),
          ("POST", "/Machine/?COMP=TelemetryData")]
NON_EXEMPT = [("POST", "/machine/?comp=telemetry"), ("PUT", "/vmagentlog2"), ("POST", "/vmAgentLog"),
              ("PUT", "/machine/?comp=telemetrydata"), ("POST", "/metadata/instance"), ("PUT", "/vmAgentLog?x=1"),
              # targets that only a normalising comparison would take for the two upload URLs
              ("POST", "/machine/?comp=telemetrydata&comp=telemetrydata"), ("POST", "/machine/?&comp=telemetrydata"),
              ("POST", "/machine/?comp=telemetrydata&"), ("PUT", "/vmAgentLog?"), ("POST", "/machine?comp=telemetrydata"),
              ("PUT", "/vmAgentLog/"), ("PUT", "//vmAgentLog")]


def spec_limit(method, target):
    t = target.lower()
    if (method == "PUT" and t == "/vmagentlog") or (method == "POST" and t == "/machine/?comp=telemetrydata"):
        return LARGE
    return LOW


def oracle(chk, o, m):
    req = o["req"]
    body = req.get("body") or b""
    limit = spec_limit(req["method"], req["target"])
    relayed_bytes = sum(o["bytes"].values())
    st = o["resp"] and o["resp"]["status"]
    style = "chunked" if req.get("chunked") is not None else "cl"
    chk.case(nontrivial_key=(req["method"], req["target"], len(body), style))
    rel = "over" if len(body) > limit else "at" if len(body) == limit else "under"
    chk.count(f"{'large' if limit == LARGE else 'low'}_{style}_{rel}")
    d = pipe.Runner.describe(None, o)
    if len(body) > limit:
        if st is None or not (400 <= st < 500) or relayed_bytes != 0:
            chk.violation("oversize body was not refused with a 4xx / part of it was relayed", d,
                          expected="4xx and 0 upstream bytes", observed=(st, o["bytes"]))
    else:
        full = [r for r in o["recs"] if not r.get("partial")]
        if st != 200 or len(full) != 1 or full[0]["body"] != body:
            chk.violation("body within the limit was not relayed intact", d, expected=(200, len(body)),
                          observed=(st, [len(r["body"]) for r in full]))


def declared_lengths(chk, stack, caller):
    """the limit classes probed by what a request DECLARES (Content-Length), no body sent: a declared length above the limit of its
    class is refused at once, one at or below it is not (the listener waits for the body) - also around 100 MiB, every run"""
    probes = [("PUT", "/vmAgentLog", LARGE), ("PUT", "/vmAgentLog", LARGE + 1), ("PUT", "/vmAgentLog", LARGE - 1),
              ("PUT", "/vmAgentLog", 1000 * LOW + 1), ("PUT", "/vmAgentLog", 1024 * 1000 * 100 + 1), ("PUT", "/vmAgentLog", 2 * LARGE),
              ("POST", "/machine/?comp=telemetrydata", LARGE), ("POST", "/machine/?comp=telemetrydata", LARGE + 1),
              ("POST", "/machine/?comp=telemetrydata", (1 << 32) + 5), ("PUT", "/vmAgentLog", (1 << 32) + LOW), ("PUT", "/vmAgentLog", (1 << 31) + 1),
              ("POST", "/machine/?comp=telemetry", LOW), ("POST", "/machine/?comp=telemetry", LOW + 1), ("POST", "/machine/?comp=telemetry", 100 * 1000 + 1),
              ("POST", "/machine/?comp=telemetry", (1 << 32) + 7), ("POST", "/machine/?comp=telemetry", LARGE)]
    for method, target, declared in probes:
        limit = spec_limit(method, target)
        stack.hosts.take()
        before = sum(stack.hosts.total_bytes().values())
        try:
            conn = stack.connect(audit=(0, caller["pid"], 1, e2e.WS[0], e2e.WS[1]))
        except OSError:
            chk.disagreement("declared-length", {"method": method, "target": target, "declared": declared}, "a connection", "refused")
            continue
        try:
            conn.send(("%s %s HTTP/1.1\r\nHost: h\r\nContent-Length: %d\r\n\r\n" % (method, target, declared)).encode())
            try:
                r = conn.read_response(method.encode(), 1.2 if declared <= limit else 5.0)
            except OSError:
                r = None
        finally:
            conn.close()
        time.sleep(0.05)
        relayed = sum(stack.hosts.total_bytes().values()) - before
        st = r and r["status"]
        chk.case(nontrivial_key=("declared", method, target, declared, st))
        chk.count("declared_over_limit" if declared > limit else "declared_within_limit")
        d = {"request": "%s %s with Content-Length: %d and no body bytes sent" % (method, target, declared), "limit_of_its_class": limit,
             "status": st, "upstream_bytes": relayed}
        if declared > limit:
            if st is None and not relayed:
                # no answer before any body byte is not a refusal yet, and nothing was relayed: not judged (the bodies that are really
                # sent, above, decide); counted so that it shows
                chk.count("declared_over_limit_not_answered_without_a_body")
            elif st is None or not (400 <= st < 500) or relayed:
                chk.violation("oversize body was not refused with a 4xx / part of it was relayed", d, expected="4xx at once, 0 upstream bytes",
                              observed=(st, relayed))
        elif st is not None and 400 <= st < 500:
            chk.violation("body within the limit was not relayed intact", d, expected="no refusal: the listener waits for the body",
                          observed=st)


def big_body(n, rng):
    block = bytes(rng.below(256) for _ in range(4096))
    return (block * (n // 4096 + 1))[:n]


def run(chk):
    if not e2e.in_netns():
        e2e.reexec_in_netns()
    rng = vlib.Rng(chk.seed)
    chk.prove()
    if not chk.driver():
        return
    ok, binp, out = vlib.build_harness("agent")
    if not ok:
        chk.broken.append({"kind": "harness", "name": "agent harness build", "why": out[-1500:]})
        return
    stack = e2e.Stack(binp)
    try:
        callers = pipe.Callers(stack)
        runner = pipe.Runner(chk, stack, callers)
        caller = callers.caller(0, "curl", True)
        env = {"ws": None, "imds": None, "hostga": None, "key": pipegen.KEY}
        sizes_low = [0, 1, LOW - 1, LOW, LOW + 1, 2 * LOW]
        if chk.tier == "thorough":
            sizes_low += [LOW - 7, LOW + 4096, 5 * LOW]
        for (method, target) in NON_EXEMPT + EXEMPT:
            for size in sizes_low:
                for chunked in (False, True):
                    body = big_body(size, rng)
                    req = {"method": method, "target": target, "headers": [(b"Host", b"h")], "body": body,
                           "chunked": ([rng.rand_range(1, 30000) for _ in range(6)] if chunked and size else None)}
                    if chunked and size == 0:
                        req["chunked"] = [1]
                    env2 = dict(env, key=(pipegen.KEY if rng.chance(1, 2) else None))
                    runner.run_case({"env": env2, "caller": caller, "dest": e2e.WS, "label": "ws", "req": req, "plan": None,
                                     "timeout": 20.0})
        # chunked bodies whose chunk sizes divide the limit (the frames add up to exactly the limit before the byte that is too many)
        for (method, target) in NON_EXEMPT[:2]:
            for size, chunking in ((LOW + 1, [1024] * 101), (LOW + 1, [4096] * 26), (LOW + 5000, [1024] * 105), (2 * LOW, [4096] * 50),
                                   (LOW + 1, [LOW, 1]), (LOW, [1024] * 100), (LOW, [4096] * 25), (LOW + 1, [51200, 51200, 1])):
                body = big_body(size, rng)
                runner.run_case({"env": env, "caller": caller, "dest": e2e.WS, "label": "ws", "plan": None, "timeout": 20.0,
                                 "req": {"method": method, "target": target, "headers": [(b"Host", b"h")], "body": body, "chunked": chunking}})
                chk.count("chunk_sizes_dividing_the_limit")
        # a client that takes longer than any ten-second budget to send a small legal upload (1 KiB per second): relayed whole
        slow_body = big_body(12 * 1024, rng)
        runner.run_case({"env": env, "caller": caller, "dest": e2e.WS, "label": "ws", "plan": None, "timeout": 40.0, "send_rate": 1024,
                         "req": {"method": "PUT", "target": "/vmAgentLog", "headers": [(b"Host", b"h")], "body": slow_body, "chunked": None}})
        chk.count("slow_client_upload")
        # several requests on ONE kept-alive connection whose limit classes differ, and requests that follow a refused one: the limit
        # is the limit of the request at hand, and nothing of a refused body reaches the host with a later request
        def rq(method, target, size, chunked=None):
            return {"env": env, "caller": caller, "dest": e2e.WS, "label": "ws", "plan": None, "timeout": 20.0,
                    "req": {"method": method, "target": target, "headers": [(b"Host", b"h")], "body": big_body(size, rng), "chunked": chunked}}
        up, up2, plain = ("PUT", "/vmAgentLog"), ("POST", "/machine/?comp=telemetrydata"), ("POST", "/machine/?comp=telemetry")
        sessions = [
            [rq(*up, 1024), rq(*plain, 2 * LOW), rq(*plain, LOW), rq(*up, 3 * LOW)],
            [rq(*up2, 10), rq(*plain, LOW + 1, [30000] * 4), rq(*plain, 7)],
            [rq("GET", "/machine?comp=goalstate", 0), rq(*up, LOW + LOW // 2), rq(*up2, 2 * LOW, [50000] * 5), rq(*plain, LOW + 1)],
            [rq(*plain, 5), rq(*up, 2 * LOW), rq(*plain, LOW - 1)],
            [rq(*plain, LOW + 1, [32768, 32768, 32768, 4097]), rq(*plain, 5), rq(*up, 9)],
            [rq(*plain, LOW + 1, [LOW, 1]), rq(*plain, 5, [5])],
            [rq(*plain, LOW + 9, [4096] * 26), rq(*plain, 64, [64]), rq(*plain, 3)],
        ]
        for sess in sessions:
            done = runner.run_session(sess, chk.count)
            chk.count("kept_connection_sessions")
            chk.count("kept_connection_requests", len(done))
            if len(done) > 1:
                chk.count("kept_connection_sessions_beyond_first_request")
        # a host that drains a legal large upload slowly (longer than any 10 s budget): the upload is still relayed whole
        slow = [("PUT", "/vmAgentLog", 16 << 20, 1300000, False)]
        if chk.tier == "thorough":
            slow += [("POST", "/machine/?comp=telemetrydata", 64 << 20, 5000000, True), ("PUT", "/vmAgentLog", LARGE, 8000000, False)]
        for (method, target, size, rate, chunked) in slow:
            body = big_body(size, rng)
            req = {"method": method, "target": target, "headers": [(b"Host", b"h"), (b"x-verif-drain", str(rate).encode())],
                   "body": body, "chunked": ([1 << 20] * (size >> 20) if chunked else None)}
            t0 = time.time()
            runner.run_case({"env": env, "caller": caller, "dest": e2e.WS, "label": "ws", "req": req, "plan": None,
                             "timeout": 90.0, "nomodel": True})
            chk.count("slow_host_upload")
            chk.coverage.setdefault("slow_host_seconds", []).append(round(time.time() - t0, 1))
        if chk.tier == "thorough":
            # the 100 MiB class (streamed through the real listener)
            for (method, target) in EXEMPT[:2] + EXEMPT[2:3]:
                for size in (LARGE - 1, LARGE, LARGE + 1):
                    for chunked in (False, True):
                        body = big_body(size, rng)
                        req = {"method": method, "target": target, "headers": [(b"Host", b"h")], "body": body,
                               "chunked": ([1 << 20] * 101 if chunked else None)}
                        runner.run_case({"env": env, "caller": caller, "dest": e2e.WS, "label": "ws", "req": req, "plan": None,
                                         "timeout": 120.0, "nomodel": True})
        declared_lengths(chk, stack, caller)
        runner.finish(oracle)
        chk.sample(runner.describe(runner.observations[3]))
        chk.sample(runner.describe(runner.observations[-1]))
    finally:
        stack.close()
    if chk.counts.get("kept_connection_sessions_beyond_first_request", 0) == 0:
        chk.broken.append({"kind": "gate", "name": "generator sanity", "why": "no kept-alive session got beyond its first request"})
    for k in ("low_cl_over", "low_chunked_over", "low_cl_at", "low_chunked_at"):
        if chk.counts.get(k, 0) == 0:
            chk.broken.append({"kind": "gate", "name": "generator sanity", "why": f"{k} never exercised"})
    chk.coverage["rule"] = ("body lengths {0,1,limit-1,limit,limit+1,2*limit} x {content-length, chunked} x 6 non-exempt + 4 exempt "
                            "method/URL pairs (case variants) for the 100 KiB class; the 100 MiB class is exercised in the thorough tier; "
                            "distinct (method,target,length,style)")
    chk.coverage["exhaustive"] = False
    chk.assumptions += ["bodies of 16 MiB and more (slow-host uploads, the 100 MiB class) are judged by the property oracle alone: the "
                        "list-based model is not executed on them; limits_are_spec ties the 100 MiB constant to the code"]
    chk.assumptions += ["quick tier relies on the generated-fact obligation limits_are_spec for the 100 MiB limit (exercised e2e only in thorough)"]
