"""C16 provisioning status is truthful under any arrival order."""
import json
import os
import re
import time
import shutil
import e2e
import pipe
import vlib
from vlib import hx

FLAG = {"r": "redirector", "k": "keyLatch", "l": "listener"}
NAMES = {"r": "ebpfProgramStatus", "k": "keyLatchStatus", "l": "proxyListenerStatus"}
LINE = re.compile(rb"^(ebpfProgramStatus|keyLatchStatus|proxyListenerStatus) - [^\r\n]*$")


def query(stack, tick, notify=False):
    """real /provision query on the listener; tick None = header absent"""
    c = e2e.ClientConn(0, 5.0)
    hs = [(b"Host", b"127.0.0.1"), (b"Metadata", b"true")]
    if tick is not None:
        hs.append((b"x-ms-azure-time_tick", str(tick).encode()))
    r = c.request(e2e.build_request("GET", "/provision", hs), b"GET", 5.0)
    c.close()
    if r is None or r["status"] != 200:
        return None
    return json.loads(r["body"])


def tag_ok(content):
    if content in (None, b""):
        return True
    if not content.endswith(b"\r\n"):
        return False
    return all(LINE.match(l) for l in content[:-2].split(b"\r\n"))


def placed_report_during_query(chk, binp):
    """a schedule: the last missing readiness report is handled between the two reads a /provision query makes (H3 inject point).
    Whatever the query then answers must be consistent: finished only with an empty error text (no deadline has passed here)"""
    for missing in ("k", "r"):
        stack = e2e.Stack(binp)
        try:
            others = [f for f in "rkl" if f != missing]
            for f in others:
                stack.ctl(f"prov call ready {f}")
            before = stack.ctl("prov msg getstate")
            now = int(stack.ctl("now"))
            stack.ctl(f"pqhook {missing}")
            ans = query(stack, now)
            stack.ctl("khook off")
            time.sleep(0.1)
            after = stack.ctl("prov msg getstate")
            chk.case(nontrivial_key=("placed-report", missing, str(ans)))
            chk.count("placed_report_during_query")
            d = {"schedule": f"readiness report '{FLAG[missing]}' handled between the reads of a query (tick = now)", "flags_before": before, "flags_after": after,
                 "answer": ans}
            if ans is None:
                chk.disagreement("provision-query", d, "an answer", "none")
                continue
            names = sorted(set(re.findall(r"(ebpfProgramStatus|keyLatchStatus|proxyListenerStatus) - ", ans.get("errorMessage", ""))))
            if ans["finished"] and names:
                chk.violation("a query reported finished together with an error text naming a subsystem as not ready (no deadline had passed)", d,
                              expected="finished=false, or finished=true with an empty error text", observed={"finished": True, "names": names})
        finally:
            stack.close()


def placed_swap_during_query(chk, binp):
    """a schedule: while a query is reading the flags, the redirector reports ready and the key latch is reset (H3 inject point, at
    the query's first read of the flags): the error text names the subsystems not ready at ONE instant of that
    history - the redirector (before), none (in between) or the key latch (after) - never both"""
    stack = e2e.Stack(binp)
    try:
        for f in ("k", "l"):
            stack.ctl(f"prov call ready {f}")
        before = stack.ctl("prov msg getstate")
        now = int(stack.ctl("now"))
        stack.ctl("pqhook2 1 r k")
        ans = query(stack, now)
        time.sleep(0.3)
        stack.ctl("khook off")
        after = stack.ctl("prov msg getstate")
        chk.case(nontrivial_key=("placed-swap", before, after, str(ans)))
        chk.count("placed_swap_during_query")
        d = {"schedule": "flags r missing; while the query's first read of the flags is handled, 'redirector ready' then 'key latch reset' are queued and handled before any further read", "flags_before": before,
             "flags_after": after, "answer": ans}
        if ans is None:
            chk.disagreement("provision-query", d, "an answer", "none")
            return
        names = sorted(set(re.findall(r"(ebpfProgramStatus|keyLatchStatus|proxyListenerStatus) - ", ans.get("errorMessage", ""))))
        if names not in ([], ["ebpfProgramStatus"], ["keyLatchStatus"]):
            chk.violation("the error text of a query does not name the subsystems not ready at any one instant", d,
                          expected="redirector only, nothing, or key latch only", observed=names)
    finally:
        stack.close()


def through_the_key_keeper(chk, binp):
    """the "secure channel latched" input of the query comes from the real key keeper: a channel the host reports disabled (in any
    letter case), and a key whose attestation failed, are not "latched" - a query then is not answered finished while the
    redirector and the key latch have not reported ready and no deadline has passed"""
    import keeper
    scenarios = [
        # (the host would hand out and attest a key if it were asked: a disabled channel must not ask, and is not "latched")
        ("v1 Disabled", {"version": "1.0", "secureChannelState": "Disabled", "keyGuid": None}, "g-d1", "ok"),
        ("v1 DISABLED", {"version": "1.0", "secureChannelState": "DISABLED", "keyGuid": None}, "g-d2", "ok"),
        ("v2 not enabled", {"version": "2.0", "secureChannelEnabled": False, "keyGuid": None}, "g-d3", "ok"),
        ("attestation fails", {"version": "1.0", "secureChannelState": "Wireserver", "keyGuid": None}, "g-1", "http"),
        ("acquire fails", {"version": "1.0", "secureChannelState": "WireserverAndImds", "keyGuid": None}, None, "ok"),
    ]
    for what, doc, newkey, att in scenarios:
        stack = e2e.Stack(binp)
        try:
            kp = keeper.Keeper(None, sd=stack.sd, attach=stack, interval_ms=15)
            plan = {"status": {"kind": "doc", "doc": doc}, "attest": ({"kind": "ok"} if att == "ok" else {"kind": "http", "code": 500}),
                    "acquire": ({"kind": "key", "guid": newkey, "key": "ab" * 32} if newkey else {"kind": "http", "code": 500})}
            for _ in range(2):
                if kp.step(plan, kick=True) is None:
                    break
            flags = stack.ctl("prov msg getstate")
            now = int(stack.ctl("now"))
            ans = query(stack, now)
            chk.case(nontrivial_key=("keeper-latched-input", what))
            chk.count("queries_through_key_keeper")
            d = {"host_status": doc, "scenario": what, "flags": flags, "answer": ans, "agent": stack.ctl("kstate")}
            if ans is None:
                chk.disagreement("provision-query", d, "an answer", "none")
            elif ans["finished"] and flags != "rkl.":
                chk.violation("provisioning reported finished although neither all three subsystems reported ready nor the deadline passed, and the "
                              "host does not have a latched key with this guest", d, expected="finished=false", observed="finished=true")
            kp.close()
        finally:
            stack.close()


def other_filesystem_dir():
    """a scratch directory on a filesystem other than the one the agent's folders live on (so that a rename between the two fails)"""
    import vlib as _v
    here = os.stat(_v.scratch_dir("c16probe")).st_dev
    for base in ("/dev/shm", "/run", "/tmp"):
        try:
            if os.path.isdir(base) and os.stat(base).st_dev != here and os.access(base, os.W_OK):
                d = os.path.join(base, "verif-c16-%d" % os.getpid())
                os.makedirs(d, exist_ok=True)
                return d
        except OSError:
            continue
    return None


def tag_replaced_by_rename_only(chk, binp, tmpdir=None):
    """syscall trace of the file operations on status.tag while it is published several times: once it exists, the final name may
    only be the target of a rename (an unlink, or opening it for writing, opens a window in which a reader finds it missing or partial)"""
    import vlib as _v
    sd = _v.scratch_dir("c16s")
    log = os.path.join(sd, "strace.txt")
    stack = e2e.Stack(binp, wrapper=["strace", "-f", "-o", log, "-e", "trace=unlink,unlinkat,rename,renameat,renameat2,openat,open,creat,truncate,ftruncate"],
                      tmpdir=tmpdir)
    try:
        tag = os.path.join(stack.sd, "keys", "status.tag")
        for step in ("timeup", "reset", "timeup", "ready r", "ready k", "ready l", "reset", "timeup", "timeup"):
            stack.ctl("prov call " + step)
            time.sleep(0.03)
        published = os.path.exists(tag)
    finally:
        stack.close()
    ops = []
    try:
        for line in open(log, errors="replace"):
            if '/status.tag"' not in line:
                continue
            mm = re.search(r"\b(unlink|unlinkat|rename|renameat|renameat2|openat|open|creat|truncate)\((.*)$", line)
            if not mm:
                continue
            call, rest = mm.group(1), mm.group(2)
            if call.startswith("rename"):
                # the final name must be the destination (last path argument), never the source
                paths = re.findall(r'"([^"]*)"', rest)
                ops.append("rename-to" if paths and paths[-1].endswith("/status.tag") and not paths[0].endswith("/status.tag") else "rename-from")
            elif call.startswith("unlink"):
                ops.append("unlink" if "= 0" in rest else "unlink-failed")
            elif call in ("open", "openat"):
                ops.append("open-write" if re.search(r"O_WRONLY|O_RDWR|O_TRUNC|O_CREAT", rest) else "open-read")
            else:
                ops.append(call)
    except OSError:
        chk.broken.append({"kind": "harness", "name": "strace (status.tag)", "why": "no trace"})
        return
    finally:
        shutil.rmtree(sd, ignore_errors=True)
    chk.case(nontrivial_key=("tag-syscalls", tmpdir is not None, tuple(ops)))
    if tmpdir is not None:
        chk.count("tag_syscalls_with_temp_dir_on_another_filesystem")
    chk.count("tag_syscalls", len(ops))
    chk.count("tag_renames", ops.count("rename-to"))
    bad = [o for o in ops if o in ("unlink", "open-write", "rename-from", "creat", "truncate")]
    if not published or ops.count("rename-to") < 2:
        chk.broken.append({"kind": "gate", "name": "status.tag syscall stage", "why": "tag not published at least twice: %r" % ops})
    elif bad:
        chk.violation("status.tag was modified in place / removed instead of being replaced by one rename",
                      {"file_operations_on_status.tag": ops, "temp_dir": tmpdir or "(inside the agent's scratch folder)"},
                      expected="rename-to only", observed=bad, finding_key="tag-not-atomic")


def overlapping_writers(chk, binp):
    """two writers of status.tag overlap (the deadline handler is held at the last status it collects while the remaining subsystems
    report ready and the last of them publishes): a reader polling the file must never find one and the same file (inode) with two
    different contents - a published file is replaced, never written to - and never a partial text"""
    import threading
    for before in ("", "r", "k") * (1 if chk.tier == "quick" else 8):          # the listener of the stack has reported ready at start-up
        stack = e2e.Stack(binp)
        try:
            tag = os.path.join(stack.sd, "keys", "status.tag")
            seen = []          # (inode, content) in the order first observed
            held = {}
            stop = threading.Event()

            def poll():
                last = None
                while not stop.is_set():
                    try:
                        f = open(tag, "rb")
                        ino = os.fstat(f.fileno()).st_ino
                        data = f.read()
                        if ino in held:
                            f.close()
                        else:
                            held[ino] = f          # kept open: the inode number cannot be given to a later file
                        if (ino, data) != last:
                            last = (ino, data)
                            seen.append(last)
                    except OSError:
                        pass
                    time.sleep(0.0005)
            th = threading.Thread(target=poll, daemon=True)
            th.start()
            r = stack.ctl("prov overlap " + (before or "-"))
            time.sleep(0.05)
            stop.set()
            th.join(2)
            for f in held.values():
                f.close()
        finally:
            stack.close()
        by_ino = {}
        for ino, data in seen:
            by_ino.setdefault(ino, [])
            if data not in by_ino[ino]:
                by_ino[ino].append(data)
        chk.case(nontrivial_key=("tag-overlap", before, r, len(seen)))
        chk.count("tag_overlapping_writers")
        if r == "overlapped" and len(seen) >= 2:
            chk.count("tag_overlapping_writers_both_published")
        d = {"schedule": "deadline handler (ready before: %r) held at its last status read; the other subsystems report ready and publish; "
                         "then the deadline handler publishes" % before,
             "observed_by_a_polling_reader": [[i, c[:60].decode("latin-1")] for i, c in seen][:8]}
        if r == "nothing-missing":
            chk.notes.append("overlapping-writers: nothing was missing after %r" % before)
            continue
        if r not in ("overlapped", "sequential"):
            chk.disagreement("status-tag", d, "the schedule to run", r)
            continue
        # the model (Gpa.TagInodes): the two writers' stretches in the order they ran; what it publishes, oldest first
        w1 = "o1 w1:%s r" % max([c for _i, c in seen] or [b""], key=len).hex()      # the deadline handler's text: the non-empty one
        ops = ("o2 w2: r " + w1) if r == "overlapped" else (w1 + " o2 w2: r")
        try:
            mo = vlib.run_driver(["taginodes " + ops])[0]
        except RuntimeError as e:
            chk.broken.append({"kind": "driver", "name": "taginodes", "why": str(e)})
            continue
        mm_ = re.match(r"safe=(\d) pubs=(\S*) tag=(\S+)$", mo)
        if not mm_ or mm_.group(1) != "1":
            chk.disagreement("status-tag", d, "the model runs the schedule safely", mo)
            continue
        model_pubs = [bytes.fromhex(x.split(":")[1].replace("-", "")) for x in mm_.group(2).split(",") if x]
        obs = [c for _i, c in seen]
        it = iter(model_pubs)
        if all(len(cs) == 1 for cs in by_ino.values()) and (not all(any(c == m for m in it) for c in obs) or len(by_ino) > len(model_pubs)):
            # what the reader saw is not a subsequence of what the model publishes (a reader may miss a publication, never see another)
            chk.disagreement("status-tag", d, "publications %r" % [m[:40] for m in model_pubs], "observed %r over %d files" % ([c[:40] for c in obs], len(by_ino)))
        changed = {i: cs for i, cs in by_ino.items() if len(cs) > 1}
        torn = [c for _i, c in seen if not tag_ok(c)]
        if changed or torn:
            chk.violation("status.tag was modified in place / removed instead of being replaced by one rename", d,
                          expected="each published file keeps the content it was published with",
                          observed="the same file (inode) read with different contents" if changed else "a partial text")


def temp_file_write_fails(chk, binp):
    """the temp file of status.tag cannot be written (its name leads to a device that is full): the published file stays what it
    was - complete - and is not replaced by what little was written"""
    stack = e2e.Stack(binp)
    try:
        keys = os.path.join(stack.sd, "keys")
        tag = os.path.join(keys, "status.tag")
        tmp = os.path.join(keys, "status.tag.tmp")
        stack.ctl("prov call timeup")          # not everything is ready: a non-empty text is published
        time.sleep(0.05)
        try:
            before = open(tag, "rb").read()
        except OSError:
            before = None
        if not before or not tag_ok(before):
            chk.disagreement("status-tag", {"stage": "temp file write fails"}, "a complete non-empty status.tag after the deadline", repr(before)[:120])
            return
        try:
            if os.path.lexists(tmp):
                os.remove(tmp)
            os.symlink("/dev/full", tmp)
        except OSError as e:
            chk.notes.append("temp-file-write-fails stage skipped: %s" % e)
            return
        stack.ctl("prov call reset")
        stack.ctl("prov call timeup")          # publishes again: writing the temp file fails with ENOSPC
        time.sleep(0.05)
        is_link = os.path.islink(tag)
        after = None if is_link else open(tag, "rb").read()
        for pth in (tmp, tag):
            if os.path.islink(pth):
                os.remove(pth)
        chk.case(nontrivial_key=("tag-temp-write-fails", is_link, after == before))
        chk.count("tag_temp_file_write_failures")
        if is_link or after is None or not tag_ok(after) or not after:
            chk.violation("status.tag was modified in place / removed instead of being replaced by one rename",
                          {"situation": "writing status.tag.tmp fails (no space left on device)", "status.tag_before": before[:80].decode("latin-1"),
                           "status.tag_after": "replaced by the unwritten temp file" if is_link else repr(after)[:80]},
                          expected="the previous complete content stays", observed="replaced")
    finally:
        stack.close()


def state_actor_gone(chk, binp):
    """the task that answers "what is the channel state" has died (its channel is closed): a /provision query gets no answer from
    it - which is not an answer that says latched"""
    stack = e2e.Stack(binp)
    try:
        before = query(stack, None)
        stack.ctl("actorkill key_keeper")
        stack.ctl("keyinfo")                   # a message for the actor: it dies handling it
        time.sleep(0.1)
        stack.ctl("khook off")
        answers = [query(stack, t) for t in (None, 0, 1)]
        chk.case(nontrivial_key=("state-actor-gone", tuple(a and a.get("finished") for a in answers)))
        chk.count("queries_with_the_state_actor_gone", len(answers))
        d = {"situation": "nothing reported ready, no deadline passed, the key keeper's state actor has died", "answer_before": before, "answers": answers}
        if before is None or before.get("finished"):
            chk.disagreement("provision-query", d, "finished=false on a fresh agent", str(before))
        elif any(a is not None and a.get("finished") for a in answers):
            chk.violation("provisioning reported finished although neither all three subsystems reported ready nor the deadline "
                          "passed at or after the instant the query names, and the channel is not latched", d, expected="finished=false", observed="finished=true")
    finally:
        stack.close()


def run(chk):
    if not e2e.in_netns():
        e2e.reexec_in_netns()
    rng = vlib.Rng(chk.seed)
    chk.prove()
    if not chk.driver():
        return
    ok, binp, out = vlib.build_harness("agent")
    if not ok:
        chk.broken.append({"kind": "harness", "name": "agent harness build", "why": out[-1500:]})
        return
    nhist = 12 if chk.tier == "quick" else 400
    for h in range(nhist):
        stack = e2e.Stack(binp)
        try:
            tag_path = os.path.join(stack.sd, "keys", "status.tag")
            # the listener reported ready at start-up (real code path): model starts with that report done
            m = ["prov new", "prov spawn ready l", "prov run 0", "prov run 0"]
            stack.ctl("prov trace")
            real_state = stack.ctl("prov msg getstate")
            # ---- (A) each real function run alone: its message program (hook H3 trace) and net effect
            steps = []
            cur_stamp = None          # real time of the stamp currently in force (None = fin is 0)
            live = []                 # model task indices are positional: we always run tasks to completion here
            nops = rng.rand_range(6, 25)
            desc = []
            saved_tick = None         # an instant noted right after the last deadline (for a query that names it later)
            # every third history starts with: deadline passes, a subsystem reports afterwards, a query names an instant in between
            script = ([("timeup", None), ("ready", rng.pick(["k", "r"])), ("earlier", None), ("ready", rng.pick(["k", "r", "l"])), ("earlier", None)]
                      if h % 3 == 0 else [])
            for j in range(nops):
                op = rng.pick(["ready", "ready", "ready", "reset", "timeup", "query", "query", "query", "chan", "msgs", "earlier"])
                forced = None
                if script:
                    op, forced = script.pop(0)
                if op == "earlier" and saved_tick is None:
                    op = "query"
                if op == "earlier":
                    # a query naming an instant shortly after the last deadline, asked now (other reports may have come in since)
                    latched = [s for s in steps if s[0] == "chan"]
                    lat = bool(latched) and latched[-1][1] not in ("disabled", "Unknown")
                    state_before = stack.ctl("prov msg getstate")
                    ans = query(stack, saved_tick)
                    steps.append(("queryO", lat, ans, state_before, cur_stamp, saved_tick))
                    chk.count("query_instant_after_deadline")
                    desc.append("query naming an instant after the last deadline")
                    continue
                if op == "ready":
                    f = forced or rng.pick(["r", "k", "l"])
                    stack.ctl("prov trace")
                    stack.ctl(f"prov call ready {f}")
                    tr = stack.ctl("prov trace").split(",")
                    st = stack.ctl("prov msg getstate")
                    m += [f"prov spawn ready {f}", "prov run 0", "prov run 0"]
                    changing = [x for x in tr if x in ("UpdateState", "ResetState", "SetProvisionFinished")]
                    want = ["UpdateState"] + (["SetProvisionFinished"] if st == "rkl." else [])
                    if changing != want:
                        chk.disagreement("program-ready", {"flag": f, "state_after": st}, want, changing)
                    if st == "rkl.":
                        cur_stamp = int(stack.ctl("now"))
                    desc.append(f"ready {f}")
                elif op == "reset":
                    stack.ctl("prov trace")
                    stack.ctl("prov call reset")
                    tr = [x for x in stack.ctl("prov trace").split(",") if x in ("UpdateState", "ResetState", "SetProvisionFinished")]
                    if tr != ["ResetState", "SetProvisionFinished"]:
                        chk.disagreement("program-reset", {}, ["ResetState", "SetProvisionFinished"], tr)
                    m += ["prov spawn reset", "prov run 0", "prov run 0"]
                    cur_stamp = None
                    desc.append("reset")
                elif op == "timeup":
                    before = stack.ctl("prov msg getstate")
                    stack.ctl("prov trace")
                    stack.ctl("prov call timeup")
                    tr = [x for x in stack.ctl("prov trace").split(",") if x in ("UpdateState", "ResetState", "SetProvisionFinished")]
                    want = [] if before == "rkl." else ["SetProvisionFinished"]
                    if tr != want:
                        chk.disagreement("program-timeup", {"state": before}, want, tr)
                    m += ["prov spawn timeup", "prov run 0", "prov run 0"]
                    if before != "rkl.":
                        cur_stamp = int(stack.ctl("now"))
                    time.sleep(0.002)
                    saved_tick = int(stack.ctl("now"))
                    time.sleep(0.002)
                    desc.append("timeup")
                elif op == "chan":
                    state = rng.pick(["disabled", "Unknown", "wireserver", "wireserverandimds", "disabled"])
                    stack.ctl("chan " + hx(state))
                    steps.append(("chan", state))
                    desc.append("chan " + state)
                    continue
                elif op == "msgs":
                    # raw actor messages in an order no single function would produce (message-level interleaving of two tasks):
                    # task A = ready f (Update ... SetFinished), task B = reset, interleaved as A0 B0 A1 B1 or A0 B0 B1 A1
                    f = rng.pick(["r", "k", "l"])
                    order = rng.pick(["A0 B0 A1 B1", "A0 B0 B1 A1", "B0 A0 A1 B1", "B0 A0 B1 A1"])
                    ra = rb_ = None
                    m += [f"prov spawn ready {f}", "prov spawn reset"]
                    ia, ib = 0, 1
                    alive = [0, 1]
                    for s_ in order.split(" "):
                        if s_ == "A0":
                            ra = stack.ctl(f"prov msg update {f}"); m.append("prov run %d" % alive.index(0))
                        elif s_ == "B0":
                            rb_ = stack.ctl("prov msg reset k"); m.append("prov run %d" % alive.index(1))
                        elif s_ == "A1":
                            if ra == "rkl.":
                                stack.ctl("prov msg setfin 1"); cur_stamp = int(stack.ctl("now"))
                            m.append("prov run %d" % alive.index(0)); alive.remove(0)
                        elif s_ == "B1":
                            stack.ctl("prov msg setfin %d" % (1 if rb_ == "rkl." else 0))
                            cur_stamp = None if rb_ != "rkl." else int(stack.ctl("now"))
                            m.append("prov run %d" % alive.index(1)); alive.remove(1)
                    desc.append(f"msgs ready {f} x reset: {order}")
                elif op == "query":
                    kind = rng.pick(["absent", "zero", "neg", "old", "now", "future", "now"])
                    now = int(stack.ctl("now"))
                    tick = {"absent": None, "zero": 0, "neg": -5, "old": 1, "now": now, "future": now + 10 ** 15}[kind]
                    chan = stack.ctl("keyinfo")  # no-op round trip; channel state tracked below
                    latched = [s for s in steps if s[0] == "chan"]
                    lat = bool(latched) and latched[-1][1] not in ("disabled", "Unknown")
                    state_before = stack.ctl("prov msg getstate")
                    stack.ctl("prov trace")
                    ans = query(stack, tick)
                    qtr = [x for x in stack.ctl("prov trace").split(",") if x in ("GetProvisionFinished", "GetState")]
                    if qtr != ["GetProvisionFinished", "GetState"]:
                        chk.disagreement("program-query", {"tick": kind}, ["GetProvisionFinished", "GetState"], qtr)
                    mq = {"absent": "prov spawn query 0 %d", "zero": "prov spawn query 0 %d", "neg": "prov spawn query -5 %d",
                          "old": "prov spawn query 1 %d", "now": "prov spawn querynow %d", "future": "prov spawn query 1000000000 %d"}[kind] % (1 if lat else 0)
                    m += [mq, "prov run 0", "prov run 0"]
                    steps.append(("query", kind, lat, ans, len(m) - 1, state_before, cur_stamp, tick))
                    desc.append(f"query {kind} latched={lat}")
                    # model query tasks stay in the list with their answer: remove by running once more (pc 2 -> done)
                    m.append("prov run 0")
                # the tag file is never observed half-written
                try:
                    content = open(tag_path, "rb").read()
                except OSError:
                    content = None
                if not tag_ok(content):
                    chk.violation("status.tag observed with a partial message", {"history": desc, "content": content[:200].decode("latin-1")})
                # state correspondence after every step
                st = stack.ctl("prov msg getstate")
                fin = int(stack.ctl("prov msg getfin"))
                steps.append(("state", st, 1 if fin != 0 else 0, len(m) - 1))
            outs = vlib.run_driver(m)
            chk.case(nontrivial_key=("hist", h, tuple(desc)))
            for s_ in steps:
                if s_[0] == "state":
                    _, st, fin, idx = s_
                    mo = outs[idx]
                    want = f"flags={st} fin={fin}"
                    if not mo.startswith(want + " "):
                        # the model line after a finished query task was removed may be the 'run' that removed it: search backwards
                        chk.disagreement("provision-state", {"history": desc}, mo[:60], want)
                elif s_[0] == "queryO":
                    _, lat, ans, state_before, stamp, tick = s_
                    d = {"history": desc, "query": "names an instant shortly after the last deadline", "latched": lat, "answer": ans,
                         "state_before": state_before}
                    if ans is None:
                        chk.disagreement("provision-query", d, "an answer", "none")
                    elif ans["finished"] and not (lat or (stamp is not None and stamp >= tick)):
                        chk.violation("provisioning reported finished although neither all three subsystems reported ready nor the deadline "
                                      "passed at or after the instant the query names, and the channel is not latched", d,
                                      expected="finished=false", observed="finished=true")
                elif s_[0] == "query":
                    _, kind, lat, ans, idx, state_before, stamp, tick = s_
                    chk.count("query_" + kind)
                    mo = outs[idx]
                    mm = re.search(r"answers=q(-?\d+):(\d):([rkl]*)\.", mo)
                    d = {"history": desc, "query": kind, "latched": lat, "answer": ans, "state_before": state_before}
                    if ans is None or mm is None:
                        chk.disagreement("provision-query", d, mo[-80:], str(ans))
                        continue
                    if (1 if ans["finished"] else 0) != int(mm.group(2)):
                        chk.disagreement("provision-query-finished", d, mm.group(2), ans["finished"])
                    # ---- oracle: the property on the implementation's answer
                    justified = lat or (stamp is not None and (tick is None or stamp >= tick) and (tick is None or True))
                    if tick is not None and stamp is not None and stamp < tick:
                        justified = lat
                    if ans["finished"] and not justified:
                        chk.violation("provisioning reported finished although neither all three subsystems reported ready nor the deadline "
                                      "passed at or after the instant the query names, and the channel is not latched", d,
                                      expected="finished=false", observed="finished=true",
                                      finding_key=None)
                    want_names = sorted(NAMES[c] for c in "rkl" if c not in state_before)
                    got_names = sorted(set(re.findall(r"(ebpfProgramStatus|keyLatchStatus|proxyListenerStatus) - ", ans.get("errorMessage", ""))))
                    if want_names != got_names:
                        chk.violation("error text does not name exactly the subsystems that are not ready", d, expected=want_names, observed=got_names)
            if h == 0:
                chk.sample({"history": desc, "model_ops": m[:10], "model_out": outs[:10]})
        finally:
            stack.close()
    placed_report_during_query(chk, binp)
    placed_swap_during_query(chk, binp)
    tag_replaced_by_rename_only(chk, binp)
    # the same with the process's temp directory on another filesystem than its folders (the atomic replacement must not depend on
    # where the temp directory happens to be)
    temp_file_write_fails(chk, binp)
    overlapping_writers(chk, binp)
    state_actor_gone(chk, binp)
    od = other_filesystem_dir()
    if od:
        try:
            tag_replaced_by_rename_only(chk, binp, tmpdir=od)
        finally:
            shutil.rmtree(od, ignore_errors=True)
    else:
        chk.notes.append("no second filesystem available: temp-dir-elsewhere variant of the status.tag stage not run")
    through_the_key_keeper(chk, binp)
    chk.coverage["rule"] = ("histories of 6-25 operations on the real actor/listener: the real readiness functions, reset, deadline handler "
                            "(each checked against the model program through the H3 message trace), raw message-level interleavings of a "
                            "readiness report with a reset, channel-state changes, and real /provision queries with ticks {absent, 0, negative, "
                            "ancient, now, far future}; flags/finished/tag file compared after every step")
    chk.assumptions += ["tokio actors handle one message at a time in arrival order", "two writers of status.tag.tmp at the same instant are not "
                        "exercised (model-level witness two_writers_can_tear; clause claimed for a single writer at a time)"]
