"""C11 enforce blocks, audit forwards and records; every denial recorded once."""
import time
import e2e
import pipe
import pipegen
import vlib
from checks import c02 as rb


def key_of(case):
    c = case["caller"]
    return (c["user"], case["dest"][0], case["dest"][1], c["exe"], c["cmdline"], "403 Forbidden")


def parse_failed(s):
    out = {}
    if s in ("-", "err"):
        return out
    for item in s.split(","):
        u, ip, port, exe, cmd, status, cnt = item.split("|")
        k = (vlib.unhx(u).decode(), ip, int(port), vlib.unhx(exe).decode(), vlib.unhx(cmd).decode(), vlib.unhx(status).decode())
        out[k] = out.get(k, 0) + int(cnt)
    return out


def mk_rules(mode, allow_user):
    """a document that allows exactly `allow_user` on /metadata and denies everyone else there"""
    return {"id": "r", "mode": mode, "defaultAccess": "allow", "rules": {
        "privileges": [{"name": "p1", "path": "/metadata", "queryParameters": None}],
        "roles": [{"name": "r1", "privileges": ["p1"]}],
        "identities": [{"name": "i1", "userName": allow_user}],
        "roleAssignments": [{"role": "r1", "identities": ["i1"]}]}}


def oracle_factory(seq_meta):
    def oracle(chk, o, m):
        case = o["case"]
        mode = case.get("c11_mode")
        denied = case.get("c11_denied")
        relayed = (sum(o["bytes"].values()) > 0)
        chk.case(nontrivial_key=(mode, denied, case["caller"]["user"], case["label"], o["req"]["target"], bool(o.get("burst"))))
        chk.count(f"{mode}_{'denied' if denied else 'allowed'}")
        d = pipe.Runner.describe(None, o)
        st = o["resp"] and o["resp"]["status"]
        if denied and mode == "enforce":
            if st != 403 or relayed:
                chk.violation("enforce-mode denial was not a 403 without relay", d, expected="403, no upstream bytes", observed=(st, o["bytes"]))
        if denied and mode == "audit":
            if not relayed or st != 200:
                chk.violation("audit-mode denial was not relayed like an allowed request", d, expected="relayed, 200", observed=(st, o["bytes"]))
        if mode == "disabled" and (not relayed):
            chk.violation("disabled mode consulted the rules", d, expected="relayed", observed=(st, o["bytes"]))
        seq_meta.setdefault(case["c11_seq"], []).append((case, m))
    return oracle


def exec_then_denied(chk, stack, runner):
    """a denial is decided and recorded for the program that makes the request: a process the rules allowed exec()s a program they do
    not allow and asks again (same pid) - that request is refused and the record names the new program"""
    import os
    import shutil
    import subprocess
    import sys
    exe_a = os.path.join(stack.sd, "c11bin", "granted-program")
    exe_b = os.path.join(stack.sd, "c11bin", "other-program")
    os.makedirs(os.path.dirname(exe_a), exist_ok=True)
    shutil.copyfile(sys.executable, exe_a); os.chmod(exe_a, 0o755)
    shutil.copyfile(shutil.which("sleep"), exe_b); os.chmod(exe_b, 0o755)
    env = dict(os.environ, PYTHONHOME=sys.base_prefix)
    p = subprocess.Popen([exe_a, "-c", "import sys,os; sys.stdin.readline(); os.execv(sys.argv[1], [sys.argv[1], '600'])", exe_b],
                         stdin=subprocess.PIPE, stdout=subprocess.DEVNULL, stderr=subprocess.DEVNULL, env=env)
    stack.pids.append(p)
    time.sleep(0.3)
    if p.poll() is not None:
        chk.notes.append("exec-then-denied stage skipped: the helper interpreter did not start")
        return
    doc = {"id": "rx", "mode": "enforce", "defaultAccess": "deny", "rules": {
        "privileges": [{"name": "p1", "path": "/metadata", "queryParameters": None}],
        "roles": [{"name": "r1", "privileges": ["p1"]}],
        "identities": [{"name": "i1", "exePath": exe_a}],
        "roleAssignments": [{"role": "r1", "identities": ["i1"]}]}}
    runner.set_env({"ws": None, "imds": doc, "hostga": None, "key": None})
    stack.ctl("clear")
    seen = []
    for phase in ("before", "after"):
        port = stack.fresh_port()
        stack.ctl("audit %d 1000 %d 0 %s %d" % (port, p.pid, e2e.IMDS[0], e2e.IMDS[1]))
        stack.hosts.take()
        try:
            c = e2e.ClientConn(port, 6.0)
        except OSError:
            return
        resp = c.request(e2e.build_request("GET", "/metadata/instance?exec=" + phase, [(b"Host", b"h")]), b"GET", 6.0)
        c.close(rst=True)
        time.sleep(0.05)
        relayed = [r for r in stack.hosts.take() if not r.get("partial")]
        seen.append((resp and resp["status"], len(relayed)))
        if phase == "before":
            p.stdin.write(b"go\n"); p.stdin.flush()
            time.sleep(0.4)
    end = time.time() + 3.0
    while True:
        failed = parse_failed(stack.ctl("failed"))
        if failed or seen[1] != (403, 0) or time.time() > end:
            break
        time.sleep(0.05)
    chk.case(nontrivial_key=("exec-then-denied", tuple(seen)))
    chk.count("exec_then_denied")
    d = {"pid": p.pid, "granted_program": exe_a, "program_after_exec": exe_b, "answers": seen,
         "failed_summary": sorted([list(k) + [v] for k, v in failed.items()])}
    if seen[0] != (200, 1):
        chk.disagreement("exec-then-denied", d, "request of the granted program relayed (200)", seen[0])
        return
    if seen[1] != (403, 0):
        chk.violation("enforce-mode denial was not a 403 without relay", d, expected="403, no upstream bytes for the program the rules do not grant",
                      observed=seen[1])
    exes = sorted(k[3] for k in failed)
    if not any(x.endswith("other-program") for x in exes) or any(x.endswith("granted-program") for x in exes):
        chk.violation("failed-authorization summary does not count each denial exactly once under its caller", d,
                      expected="one record naming other-program", observed=exes)


def kept_connection_denials(chk, stack, runner, callers):
    """on ONE kept-alive connection: the same path with query strings the rules tell apart, denied ones repeated; and the rule set
    replaced between identical requests. Each denial is a 403 (enforce) / relayed (audit) and is counted once."""
    for sess in pipegen.query_rule_sessions(callers):
        stack.ctl("clear")
        conn = None
        want_failed = 0
        trace = []
        for case in sess:
            runner.set_env(case["env"])
            doc = case["env"]["imds"]
            granted = doc["rules"]["privileges"][0]["queryParameters"]["resource"]
            q = case["req"]["target"].split("resource=")[1].split("&")[0]
            denied = q.lower() != granted
            mode = doc["mode"]
            stack.hosts.take()
            if conn is None:
                c = case["caller"]
                conn = stack.connect(audit=(c["uid"], c["pid"], 0, case["dest"][0], case["dest"][1]))
            try:
                resp = conn.request(e2e.build_request("GET", case["req"]["target"], [(b"Host", b"h")]), b"GET", 6.0)
            except OSError:
                resp = None
            if resp is None:
                break
            relayed = len([r for r in stack.hosts.take() if not r.get("partial")])
            trace.append((case["req"]["target"], mode, granted, resp["status"], relayed))
            chk.case(nontrivial_key=("kept-denials", mode, denied, q))
            chk.count("kept_connection_%s_%s" % (mode, "denied" if denied else "allowed"))
            d = {"requests_on_this_connection": [list(t) for t in trace]}
            if denied:
                want_failed += 1
                if mode == "enforce" and (resp["status"] != 403 or relayed):
                    chk.violation("enforce-mode denial was not a 403 without relay", d, expected="403, no upstream bytes", observed=(resp["status"], relayed))
                if mode == "audit" and (resp["status"] != 200 or relayed != 1):
                    chk.violation("audit-mode denial was not relayed like an allowed request", d, expected="relayed, 200", observed=(resp["status"], relayed))
            elif resp["status"] != 200 or relayed != 1:
                chk.disagreement("kept-connection", d, "allowed request relayed (200)", (resp["status"], relayed))
            if (e2e.hget(resp["headers"], b"connection") or b"").lower() == b"close":
                break
        if conn is not None:
            conn.close()
        # the summary is kept by an actor: give it a moment to take in the last message before calling a count wrong
        end = time.time() + 3.0
        while True:
            got = sum(parse_failed(stack.ctl("failed")).values())
            if got == want_failed or time.time() > end:
                break
            time.sleep(0.05)
        time.sleep(0.1)
        got = sum(parse_failed(stack.ctl("failed")).values())
        if got != want_failed:
            chk.violation("failed-authorization summary does not count each denial exactly once under its caller",
                          {"requests_on_one_connection": [list(t) for t in trace]}, expected=want_failed, observed=got)


def denials_before_the_status_task(chk, binp):
    """the listener serves (and refuses) requests before the task that publishes the status file has started: the denials made by
    then are in the first status file it writes, and stay there"""
    import json as _json
    import os
    stack = e2e.Stack(binp)
    try:
        callers = pipe.Callers(stack)
        deny = {"id": "deny-all", "mode": "enforce", "defaultAccess": "deny", "rules": {"privileges": [], "roles": [], "identities": [], "roleAssignments": []}}
        r = stack.ctl("rules imds %s" % vlib.hx(rb.doc_json(deny)))
        assert r == "ok", r
        c = callers.caller(1000, "curl", False)

        def denied(k):
            conn = stack.connect(audit=(1000, c["pid"], 0, e2e.IMDS[0], e2e.IMDS[1]))
            try:
                return conn.request(e2e.build_request("GET", "/metadata/instance?early=%d" % k, [(b"Host", b"h")]), b"GET", 5.0)
            finally:
                conn.close()
        made = 0
        for k in range(3):
            r_ = denied(k)
            made += 1 if (r_ is not None and r_["status"] == 403) else 0
        time.sleep(0.2)
        sd = stack.sd
        r = stack.ctl("sinks %s %s %s 60" % (vlib.hx(sd + "/logs"), vlib.hx(sd + "/events"), vlib.hx(sd + "/status")))     # the status task starts now
        assert r == "ok", r
        seen = []
        for want_more in (0, 2):
            for k in range(want_more):
                r_ = denied(10 + k)
                made += 1 if (r_ is not None and r_["status"] == 403) else 0
            time.sleep(0.6)
            try:
                sj = _json.load(open(os.path.join(sd, "status", "status.json")))
                total = sum(int(x.get("count", 0)) for x in sj.get("failedAuthenticateSummary", []))
            except (OSError, ValueError):
                total = None
            seen.append((made, total))
        chk.case(nontrivial_key=("denials-before-status-task", tuple(seen)))
        chk.count("denials_before_the_status_task")
        for made_, total in seen:
            if total is None:
                chk.disagreement("status-file", {"published": seen}, "a readable status.json", "none")
                break
            if total != made_:
                chk.violation("failed-authorization summary does not count each denial exactly once under its caller",
                              {"situation": "3 requests refused before the status task started, 2 more afterwards", "(denials made, count published)": seen},
                              expected=made_, observed=total)
                break
    finally:
        stack.close()


def run(chk):
    if not e2e.in_netns():
        e2e.reexec_in_netns()
    rng = vlib.Rng(chk.seed)
    chk.prove()
    if not chk.driver():
        return
    ok, binp, out = vlib.build_harness("agent")
    if not ok:
        chk.broken.append({"kind": "harness", "name": "agent harness build", "why": out[-1500:]})
        return
    stack = e2e.Stack(binp)
    seq_failed = {}
    seq_meta = {}
    try:
        callers = pipe.Callers(stack)
        pipegen.bind_rule_vocab(callers)
        runner = pipe.Runner(chk, stack, callers)
        nseq = 24 if chk.tier == "quick" else 1500
        for s in range(nseq):
            mode = ["enforce", "audit", "disabled"][s % 3]
            label, addr, ep = rng.pick([("imds", e2e.IMDS, "imds"), ("ws", e2e.WS, "ws"), ("ga", e2e.GA, "hostga")])
            env = {"ws": None, "imds": None, "hostga": None, "key": pipegen.KEY if rng.chance(1, 2) else None}
            env[ep] = mk_rules(mode, "root")
            if rng.chance(1, 3):   # a generated document instead of the fixed one
                for _ in range(30):
                    d = rb.gen_doc(rng, {})
                    if not rb.has_dup(d) and d["mode"].lower() == mode:
                        env[ep] = d
                        break
            burst = (s % 4 == 3)
            cases = []
            for j in range(rng.rand_range(8, 30)):
                uid = rng.pick([0, 1000, 1001]) if label == "imds" else 0
                proc = rng.pick(["curl", "waagent"])
                caller = callers.caller(uid, proc, uid == 0)
                if label == "imds" and uid == 0 and rng.chance(1, 2):
                    caller = callers.caller(1002, proc, False)
                target = rng.pick(["/metadata/instance", "/metadata/instance", "/METADATA/x", "/other"])
                case = {"env": env, "caller": caller, "dest": addr, "label": label,
                        "req": {"method": "GET", "target": target, "headers": [(b"Host", b"h")], "body": None, "chunked": None},
                        "plan": None, "c11_mode": mode, "c11_seq": s, "no_failed_compare": True}
                cases.append(case)
            if burst:
                obs, failed = runner.run_burst(cases)
                seq_failed[s] = failed
            else:
                for i, case in enumerate(cases):
                    runner.run_case(case, clear=(i == 0))
                seq_failed[s] = stack.ctl("failed")

        # a large burst of identical denials reported to the status actor all at once (more than its channel holds), while the
        # actor is a slow consumer of summaries (H3 inject point): every one must be counted
        stack.ctl("clear")
        nbig = 400 if chk.tier == "quick" else 3000
        stack.ctl("shook 300")
        try:
            r = stack.ctl("sumburst %d" % nbig)
        finally:
            stack.ctl("khook off")
        chk.count("large_burst_denials", nbig)
        chk.case(nontrivial_key=("large-burst", nbig))
        gotf, gotc = [int(x) for x in r.split(" ")]
        if gotf != nbig or gotc != nbig:
            chk.violation("a burst of concurrent denials was not counted exactly once each", {"denials_reported_concurrently": nbig, "status_actor": "slowed by 300 us per summary"},
                          expected={"failed_summary": nbig, "connection_summary": nbig}, observed={"failed_summary": gotf, "connection_summary": gotc})
        stack.ctl("clear")

        # model first (fills o["model"]); then decide `denied` from the model's failed flag
        def pre_oracle(chk_, o, m):
            o["case"]["c11_denied"] = (m.get("failed") == 1)
        runner.finish(lambda c, o, m: (pre_oracle(c, o, m), oracle_factory(seq_meta)(c, o, m)))
        # summary counts per sequence
        for s, failed in seq_failed.items():
            got = parse_failed(failed)
            want = {}
            for case, m in seq_meta.get(s, []):
                if m.get("failed") == 1:
                    k = key_of(case)
                    want[k] = want.get(k, 0) + 1
            chk.count("sequences")
            if want:
                chk.count("sequences_with_denials")
            if any(v > 1 for v in want.values()):
                chk.count("sequences_with_repeated_denials")
            if got != want:
                chk.violation("failed-authorization summary does not count each denial exactly once under its caller",
                              {"sequence": s, "mode": seq_meta[s][0][0]["c11_mode"] if s in seq_meta else None,
                               "requests": len(seq_meta.get(s, []))},
                              expected=sorted((list(k), v) for k, v in want.items()), observed=sorted((list(k), v) for k, v in got.items()))
        exec_then_denied(chk, stack, runner)
        kept_connection_denials(chk, stack, runner, callers)
        chk.sample({"sequence0_failed_summary": parse_failed(seq_failed[0]) and [list(k) + [v] for k, v in parse_failed(seq_failed[0]).items()],
                    "mode": "enforce"})
        chk.sample(runner.describe(runner.observations[0]))
    finally:
        stack.close()
    denials_before_the_status_task(chk, binp)
    # enforce-mode rules that deny everybody, and the task holding them dies: still nothing is relayed
    for first in ("imds", "ws-elevated"):
        for ob in pipe.rules_lookup_fails(binp, chk.count, first):
            chk.case(nontrivial_key=("rules-lookup-fails", first, ob["label"], ob["elevated"], ob["actor"], ob["status"]))
            if ob["upstream_bytes"]:
                chk.violation("enforce-mode denial was not a 403 without relay", ob, expected="an error status, no upstream bytes",
                              observed=(ob["status"], ob["upstream_bytes"]))
    if chk.counts.get("sequences_with_repeated_denials", 0) == 0:
        chk.broken.append({"kind": "gate", "name": "generator sanity", "why": "no sequence with repeated identical denials"})
    chk.coverage["rule"] = ("request sequences (8-30 requests, several identities, many identical denials) per mode x endpoint, every "
                            "4th sequence sent as a concurrent burst on separate connections; client status, mock-host log and "
                            "get_all_failed_connection_summary() compared with the model; non-trivial = distinct (mode, denied?, user, "
                            "endpoint, target, burst?)")
