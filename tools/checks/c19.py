"""C19 disk usage by logs, events and rule dumps stays within configured bounds."""
import os
import shutil
import subprocess
import vlib


def parse_listing(s):
    cur, a = s.split(" ")
    cur = cur[4:]
    a = a[2:]
    return (None if cur == "-" else int(cur)), ([] if a == "-" else [int(x) for x in a.split(",")])


class Eng:
    def __init__(self, binp, sd):
        r, w = os.pipe()
        self.p = subprocess.Popen([binp], stdin=subprocess.PIPE, stdout=subprocess.DEVNULL, stderr=open(sd + "/err.txt", "wb"), pass_fds=(w,), cwd=sd,
                                  env=dict(os.environ, VERIF_ENGINE="logs", VERIF_OUT=f"/dev/fd/{w}", VERIF_SCRATCH=sd + "/w"))
        os.close(w)
        self.o = os.fdopen(r)

    def ctl(self, line):
        self.p.stdin.write((line + "\n").encode()); self.p.stdin.flush()
        return self.o.readline().strip()

    def close(self):
        try:
            self.p.stdin.close(); self.p.wait(timeout=5)
        except Exception:
            self.p.kill()


def dump_peak(chk, eng, sd):
    """the number of rule dumps at every moment (what a concurrent reader, or a crash, would find), not only between calls: the
    directory is watched (inotify) while dumps are written into it at its limit; the running count of dump files, updated at every
    create / rename-into / delete event, must never exceed the limit"""
    import re as _re
    import time as _t
    for mx in (1, 3, 5):
        d = "peak%d" % mx
        eng.ctl(f"dumppre {d} {mx}")
        ddir = os.path.join(sd, "w", d)
        start = len([n for n in os.listdir(ddir) if _re.match(r"^AuthorizationRules_.*\.json$", n)])
        try:
            w = subprocess.Popen(["inotifywait", "-m", "-q", "-e", "create", "-e", "moved_to", "-e", "moved_from", "-e", "delete", "--format", "%e %f", ddir],
                                 stdout=subprocess.PIPE, stderr=subprocess.DEVNULL, text=True)
        except OSError:
            chk.notes.append("dump-peak stage skipped: no inotifywait")
            return
        _t.sleep(0.3)          # the watch is in place
        for _ in range(6):
            eng.ctl(f"dump {d} {mx}")
        _t.sleep(0.2)
        w.terminate()
        try:
            out = w.communicate(timeout=5)[0]
        except subprocess.TimeoutExpired:
            w.kill(); out = ""
        count, peak, events, counts = start, start, [], []
        for line in out.splitlines():
            ev, _, name = line.partition(" ")
            if not _re.match(r"^AuthorizationRules_.*\.json$", name):
                continue
            events.append(ev)
            if "CREATE" in ev or "MOVED_TO" in ev:
                count += 1
            elif "DELETE" in ev or "MOVED_FROM" in ev:
                count -= 1
            peak = max(peak, count)
            counts.append(count)
        # the same six calls in the model: the number of dumps at every moment (Gpa.Logs.dumpTrace)
        want, cur = [], start
        try:
            for _ in range(6):
                tr = [int(x) for x in vlib.run_driver(["logs dumptrace %d %d" % (mx, cur)])[0].split(",")]
                want += tr[1:]
                cur = tr[-1]
            if len(events) >= 6 and counts != want:
                chk.disagreement("dump-trace", {"limit": mx, "dumps_at_start": start}, want, counts)
        except (RuntimeError, ValueError) as e:
            chk.broken.append({"kind": "driver", "name": "logs dumptrace", "why": str(e)})
        chk.case(nontrivial_key=("dump-peak", mx, len(events)))
        chk.count("dump_directory_events_watched", len(events))
        if len(events) < 6:
            chk.notes.append("dump-peak: only %d directory events seen for limit %d" % (len(events), mx))
            continue
        if peak > mx:
            chk.violation("more rule dumps kept than configured", {"situation": "directory at its limit of %d dumps, six more written; counted at every directory event" % mx,
                                                                    "events": events[:12], "peak": peak}, expected="<= %d at every moment" % mx, observed=peak)
        shutil.rmtree(ddir, ignore_errors=True)


def run(chk):
    rng = vlib.Rng(chk.seed)
    chk.prove()
    if not chk.driver():
        return
    ok, binp, out = vlib.build_harness("agent")
    if not ok:
        chk.broken.append({"kind": "harness", "name": "agent harness build", "why": out[-1500:]})
        return
    sd = vlib.scratch_dir("c19")
    exe = os.path.join(sd, "harness")
    shutil.copyfile(binp, exe); os.chmod(exe, 0o755)
    import json
    json.dump({"logFolder": sd + "/logs", "eventFolder": sd + "/ev", "latchKeyFolder": sd + "/keys", "monitorIntervalInSeconds": 60,
               "pollKeyStatusIntervalInSeconds": 15, "hostGAPluginSupport": 1, "ebpfProgramName": "e.o"}, open(sd + "/proxy-agent.json", "w"))
    eng = Eng(exe, sd)
    try:
        # ---------------- rolling logs
        nh = 60 if chk.tier == "quick" else 4000
        mlines, impl, meta = [], [], []
        for h in range(nh):
            maxsize = rng.pick([1, 10, 100, 1000, 4096])
            maxcount = rng.pick([1, 2, 3, 5, 8])
            d = f"roll{h}"
            # what an earlier run with the same settings left behind (possibly at the limits)
            pre_arch = [rng.rand_range(maxsize, maxsize * 2) for _ in range(rng.rand_range(0, maxcount - 1))]
            pre_cur = rng.pick([None, 0, maxsize - 1, maxsize, maxsize + 7]) if rng.chance(2, 3) else None
            for a in pre_arch:
                eng.ctl(f"pre {d} arch {a}")
            if pre_cur is not None:
                eng.ctl(f"pre {d} cur {pre_cur}")
            lst = eng.ctl(f"new {d} {maxsize} {maxcount}")
            mlines.append("logs new %d %d %s %s" % (maxsize, maxcount, "-" if pre_cur is None else pre_cur, " ".join(map(str, pre_arch))))
            impl.append(lst); meta.append((h, "new", maxsize, maxcount, None))
            for w in range(rng.rand_range(3, 40)):
                b = rng.pick([0, 1, 2, maxsize // 2 + 1, maxsize - 1, maxsize, maxsize + 1, 3 * maxsize])
                lst = eng.ctl(f"write {d} {b}")
                mlines.append(f"logs write {b}")
                impl.append(lst); meta.append((h, "write", maxsize, maxcount, b))
            shutil.rmtree(os.path.join(sd, "w", d), ignore_errors=True)
        # the archive step cannot be done (the live file may only be appended to: `chattr +a`, as an administrator or a log shipper
        # may have set it): the file does not grow past its limit for that
        d = "appendonly"
        maxsize = 1000
        eng.ctl(f"new {d} {maxsize} 3")
        live = os.path.join(sd, "w", d, "ProxyAgent.log")
        eng.ctl(f"write {d} 600")
        locked = os.path.exists(live) and subprocess.run(["chattr", "+a", live], stdout=subprocess.DEVNULL, stderr=subprocess.DEVNULL).returncode == 0
        if locked:
            try:
                sizes = []
                for w_ in range(30):
                    cur, arch = parse_listing(eng.ctl(f"write {d} 300"))
                    sizes.append(cur)
                chk.case(nontrivial_key=("append-only-live-file", tuple(sizes[-3:])))
                chk.count("writes_with_archiving_impossible", 30)
                if sizes[-1] is not None and sizes[-1] >= maxsize + 300:
                    chk.violation("log file grew beyond its size limit by more than one write",
                                  {"situation": "the live log file is append-only (chattr +a), so it cannot be renamed away", "maxsize": maxsize,
                                   "sizes_after_each_300_byte_write": sizes}, expected=f"< {maxsize}+300", observed=sizes[-1])
            finally:
                subprocess.run(["chattr", "-a", live], stdout=subprocess.DEVNULL, stderr=subprocess.DEVNULL)
        else:
            chk.notes.append("append-only stage skipped: chattr +a not possible on the scratch filesystem")
        shutil.rmtree(os.path.join(sd, "w", d), ignore_errors=True)
        model = vlib.run_driver(mlines)
        prev = None
        for (h, op, maxsize, maxcount, b), io, mo in zip(meta, impl, model):
            chk.case(nontrivial_key=("roll", h, op, b, io))
            cur, arch = parse_listing(io)
            if io != mo:
                chk.disagreement("rolling", {"history": h, "op": op, "bytes": b, "maxsize": maxsize, "maxcount": maxcount}, mo, io)
            nfiles = len(arch) + (1 if cur is not None else 0)
            desc = {"history": h, "maxsize": maxsize, "maxcount": maxcount, "listing": io, "last_write": b}
            if op == "write":
                chk.count("roll_writes")
                if nfiles > maxcount:
                    chk.violation("more log files kept than the configured count", desc, expected=f"<= {maxcount}", observed=nfiles)
                if cur is not None and cur >= maxsize + (b or 0) and maxsize >= 1:
                    # a file that has reached the limit is rolled before the next write, also when an earlier run left it that way:
                    # after a write of b bytes the current file is always shorter than limit + b
                    chk.violation("log file grew beyond its size limit by more than one write", desc, expected=f"< {maxsize}+{b}", observed=cur)
                if prev is not None and prev[0] == h and len(arch) < len(prev[2]) + 1 and prev[2] and arch:
                    # oldest first: what is kept must be a suffix of (old archives + maybe the rolled file)
                    old = prev[2] + ([prev[1]] if prev[1] is not None else [])
                    ok_suffix = any(old[k:] == arch for k in range(len(old) + 1)) or arch == prev[2]
                    if not ok_suffix:
                        chk.violation("an archive other than the oldest was removed", desc, expected=f"suffix of {old}", observed=arch)
                if len(arch) and prev is not None and prev[0] == h and len(arch) != len(prev[2]):
                    chk.count("roll_rolls")
            prev = (h, cur, arch)
        chk.sample({"rolling": [m for m in mlines[:6]], "impl": impl[:6]})
        # ---------------- event directory cap
        cap = 6
        eng.ctl(f"evstart ev {cap}")
        n = int(eng.ctl("evpre %d" % rng.rand_range(0, cap)))
        ml, got = [], []
        steps = 40 if chk.tier == "quick" else 600
        for i in range(steps):
            r = rng.below(10)
            if i % 12 == 5 and n < cap:
                n = int(eng.ctl("evpre %d" % (cap - n)))      # the reader fell behind: the directory is at its cap
                r = 0
            if r < 6:
                # small bursts, and bursts of hundreds of events in one flush interval (the queue holds 1000)
                k = rng.pick([rng.rand_range(1, 30)] * 3 + [99, 100, 101, 250, 600, 999])
                if n == cap - 1 and rng.chance(1, 2):
                    k = rng.pick([250, 999])
                chk.count("event_burst_ge_100" if k >= 100 else "event_burst_small")
                new, ms = [int(x) for x in eng.ctl(f"evwrite {k}").split(" ")]
                ml.append(f"logs ev {cap} {n}")
                got.append(("flush", n, new, ms))
            else:
                k = rng.rand_range(1, 3)
                new = int(eng.ctl(f"evrm {k}"))
                got.append(("rm", n, new, 0))
            n = new
        outs = iter(vlib.run_driver(ml))
        for (op, before, after, ms) in got:
            chk.case(nontrivial_key=("ev", op, before, after))
            chk.count("event_" + op)
            if after > cap:
                chk.violation("event directory holds more files than its cap", {"cap": cap, "before": before, "after": after}, expected=f"<= {cap}", observed=after)
            if op == "flush":
                want = int(next(outs))
                # a burst that took longer to enqueue than the flush interval (15 ms) is written by several flushes, one file each
                extra = ms // 15 + 1
                if not (want <= after <= min(cap, want + extra)) and not (before >= cap and after == before):
                    chk.disagreement("event-cap", {"cap": cap, "before": before, "burst_ms": ms}, "%d..%d" % (want, min(cap, want + extra)), after)
                if before >= cap:
                    chk.count("event_flush_at_cap")
        # ---------------- shutdown while events are queued, with the directory at / below its cap (one process per shutdown)
        for pre in ([cap, cap - 1] if chk.tier == "quick" else [cap, cap - 1, cap, 0, cap - 2, cap]):
            e2 = Eng(exe, sd)
            try:
                dname = "evstop%d_%d" % (pre, rng.below(10 ** 6))
                e2.ctl(f"evstart {dname} {cap}")
                before = int(e2.ctl("evpre %d" % pre)) if pre else 0
                after = int(e2.ctl("evstop %d" % rng.pick([1, 5, 120])))
                chk.case(nontrivial_key=("evstop", pre, after))
                chk.count("event_shutdown_flush")
                if after > cap:
                    chk.violation("event directory holds more files than its cap after a shutdown flush", {"cap": cap, "before": before, "after": after},
                                  expected=f"<= {cap}", observed=after)
                elif after > before + 1:
                    chk.disagreement("event-cap", {"cap": cap, "before": before, "op": "shutdown flush"}, "<= %d" % (before + 1), after)
            finally:
                e2.close()
        # ---------------- leftovers of a killed run (temp files) count as files of the directory
        e3 = Eng(exe, sd)
        try:
            dname = "evtmp%d" % rng.below(10 ** 6)
            e3.ctl(f"evstart {dname} {cap}")
            n0 = int(e3.ctl("evpretmp %d" % (cap - 2)))
            last = n0
            for _ in range(6):
                last = int(e3.ctl("evwrite %d" % rng.rand_range(1, 5)).split(" ")[0])
            chk.case(nontrivial_key=("evtmp", n0, last))
            chk.count("event_dir_with_leftover_temp_files")
            if last > cap:
                chk.violation("event directory holds more files than its cap (temp files left by a killed run are files too)",
                              {"cap": cap, "leftover_tmp_files": cap - 2, "after": last}, expected=f"<= {cap}", observed=last)
        finally:
            e3.close()
        # ---------------- the cap as configured (proxy-agent.json), boundary values included: one process per value
        for cfgcap in ([0, 2] if chk.tier == "quick" else [0, 1, 2, 5]):
            sd2 = vlib.scratch_dir("c19cfg")
            try:
                exe2 = os.path.join(sd2, "harness")
                shutil.copyfile(binp, exe2); os.chmod(exe2, 0o755)
                json.dump({"logFolder": sd2 + "/logs", "eventFolder": sd2 + "/ev", "latchKeyFolder": sd2 + "/keys", "monitorIntervalInSeconds": 60,
                           "pollKeyStatusIntervalInSeconds": 15, "hostGAPluginSupport": 1, "ebpfProgramName": "e.o", "maxEventFileCount": cfgcap},
                          open(sd2 + "/proxy-agent.json", "w"))
                e4 = Eng(exe2, sd2)
                try:
                    got_cap = int(e4.ctl("evstartcfg evc"))
                    last = 0
                    for _ in range(cfgcap + 4):
                        last = int(e4.ctl("evwrite %d" % rng.rand_range(1, 5)).split(" ")[0])
                    chk.case(nontrivial_key=("evcfg", cfgcap, last))
                    chk.count("configured_event_cap_%d" % cfgcap)
                    if last > cfgcap:
                        chk.violation("event directory holds more files than the configured cap", {"maxEventFileCount": cfgcap, "cap_used_by_the_agent": got_cap,
                                                                                                    "after": last}, expected=f"<= {cfgcap}", observed=last)
                finally:
                    e4.close()
            finally:
                shutil.rmtree(sd2, ignore_errors=True)
        # ---------------- rule dumps
        nd = 12 if chk.tier == "quick" else 400
        for h in range(nd):
            mx = rng.pick([1, 2, 3, 5])
            d = f"dump{h}"
            pre = rng.rand_range(0, mx + 2) if rng.chance(1, 2) else 0     # may start above the limit (settings changed): still converges
            eng.ctl(f"dumppre {d} {pre}")
            cur = eng.ctl(f"dumplist {d}")
            ids = [] if cur == "-" else [int(x) for x in cur.split(",")]
            for j in range(rng.rand_range(2, 9)):
                newid = (max(ids) + 1) if ids else 0
                res = eng.ctl(f"dump {d} {mx}")
                got_ids = [] if res == "-" else [int(x) for x in res.split(",")]
                # the engine numbers files in first-seen order, so the new file gets the next id
                mo = vlib.run_driver(["logs dump %d %d %s" % (mx, newid, " ".join(map(str, ids)))])[0]
                want_ids = [] if mo == "-" else [int(x) for x in mo.split(",")]
                # ids are engine-global; compare by rank
                def rank(xs, universe):
                    return [universe.index(x) for x in xs]
                uni = ids + [newid]
                chk.case(nontrivial_key=("dump", h, j, len(ids), mx))
                chk.count("dump_writes")
                kept_old = [x for x in got_ids if x in ids]
                new_ones = [x for x in got_ids if x not in ids]
                got_rank = [ids.index(x) for x in kept_old] + [len(ids)] * len(new_ones)
                want_rank = [uni.index(x) for x in want_ids]
                if got_rank != want_rank:
                    chk.disagreement("dumps", {"max": mx, "before": len(ids), "step": j}, want_rank, got_rank)
                if len(got_ids) > mx:
                    chk.violation("more rule dumps kept than configured", {"max": mx, "kept": len(got_ids)})
                if kept_old != ids[len(ids) - len(kept_old):]:
                    chk.violation("a dump other than the oldest was removed", {"max": mx, "before": ids, "after": got_ids})
                ids = got_ids
            shutil.rmtree(os.path.join(sd, "w", d), ignore_errors=True)
        dump_peak(chk, eng, sd)
    finally:
        eng.close()
        shutil.rmtree(sd, ignore_errors=True)
    for k in ("roll_rolls", "event_flush_at_cap"):
        if chk.counts.get(k, 0) == 0:
            chk.broken.append({"kind": "gate", "name": "generator sanity", "why": f"{k} never exercised"})
    chk.coverage["rule"] = ("rolling logger: histories of 3-40 writes of sizes {0,1,2,max/2+1,max-1,max,max+1,3max} with settings drawn from "
                            "{1..4096} x {1..8}, starting on directories an earlier run left at/near the limits; event logger: bursts of "
                            "events vs reader removals around the cap; rule dumps: repeated write_all on pre-filled directories; listing after "
                            "every operation compared with the model")
    chk.assumptions += ["one writer at a time per log (the logger takes no lock; concurrent writers are runtime behaviour not modelled)",
                        "archive/dump names sort in creation order (timestamp + nanosecond clock)"]
