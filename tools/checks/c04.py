"""C04 relayed requests carry a valid HMAC over exactly what the host receives."""
import shutil
import e2e
import pipe
import pipegen
import vlib
from vlib import hx, unhx

HNAMES = ["Host", "x-ms-version", "Metadata", "Accept", "User-Agent", "x-custom", "X-Custom", "X-CUSTOM", "x-ms-azure-host-claims",
          "x-ms-azure-host-date", "X-Ms-Azure-Host-Authorization", "content-type", "x-a", "x-ab", "x-b"]
HVALS = [b"v", b"value with spaces", b"  lead", b"trail  ", b"\ttab\t", b"", b"a:b", b"k=v;q=1", b"UPPER", b"caf\xc3\xa9", b"x" * 300]
QKEYS = ["comp", "Comp", "COMP", "a", "ab", "abc", "b", "api-version", "type", "%41", "a%3D", "x.y", "k"]
QVALS = ["", "1", "2", "bc", "c", "goalstate", "GoalState", "x%20y", "a=b", "2021-02-01", "z"]
PATHS = ["/", "/machine", "/machine/", "/metadata/instance", "/Metadata/Instance", "/vmAgentLog", "/a%2Fb", "/x;y=1", "/very/" + "long/" * 40]
METHODS = ["GET", "POST", "PUT", "DELETE", "HEAD", "PATCH", "OPTIONS"]


def gen_query(rng):
    n = rng.pick([0, 0, 1, 2, 3, 4, 6])
    if n == 0:
        return rng.pick([None, None, ""]), []
    parts = []
    pairs = []
    for _ in range(n):
        r = rng.below(14)
        if r == 0 and pairs:                       # exact repeat
            k, v = rng.pick(pairs)
            parts.append(f"{k}={v}" if v or rng.chance(1, 2) else k)
        elif r == 1:
            parts.append("")                        # "&&"
            continue
        elif r == 2:
            parts.append("=orphan")                 # empty key
            continue
        else:
            k, v = rng.pick(QKEYS), rng.pick(QVALS)
            if r == 3:
                parts.append(k)                     # valueless
                v = ""
            else:
                parts.append(f"{k}={v}")
        if parts[-1] and not parts[-1].startswith("="):
            kk, _, vv = parts[-1].partition("=")
            pairs.append((kk, vv))
    if rng.chance(1, 6):                            # the concat-collision shape
        parts += rng.pick([["a=bc", "ab=c"], ["ab=c", "a=bc"], ["a=z", "ab=c"], ["a=1", "a=1"]])
        for p in parts[-2:]:
            kk, _, vv = p.partition("=")
            pairs.append((kk, vv))
    return "&".join(parts), pairs


def gen_headers(rng, allow_nonascii):
    hs = []
    for _ in range(rng.rand_range(0, 7)):
        n = rng.pick(HNAMES)
        v = rng.pick(HVALS)
        if not allow_nonascii and any(b >= 0x80 for b in v):
            v = b"ascii"
        hs.append((n, v))
    return hs


def split_pairs(q):
    out = []
    if q is None:
        return out
    for i, part in enumerate(q.split("&")):
        k, _, v = part.partition("=")
        if k:
            out.append((i, k, v))
    return out


def lineA(method, uri, hs, body):
    t = ["canonA", hx(method), hx(uri), str(len(hs))]
    for n, v in hs:
        t += [hx(n), hx(v)]
    t.append(hx(body))
    return " ".join(t)


def model_line(method, path, q, hs, body):
    t = ["canon", hx(method), hx(path)] + (["N"] if q is None else ["V", hx(q)]) + [str(len(hs))]
    for n, v in hs:
        t += [hx(n), hx(v)]
    t.append(hx(body))
    return " ".join(t)


def function_level(chk, rng, binp):
    n = 1200 if chk.tier == "quick" else 60000
    impl_lines, model_lines, meta = [], [], []
    for i in range(n):
        method = rng.pick(METHODS)
        path = rng.pick(PATHS)
        q, _ = gen_query(rng)
        hs = gen_headers(rng, allow_nonascii=rng.chance(1, 20))
        body = bytes(rng.below(256) for _ in range(rng.pick([0, 0, 1, 10, 200]))) if method in ("POST", "PUT", "PATCH") else b""
        if rng.chance(1, 10):
            body += b"\n" + body
        uri = path + ("?" + q if q is not None else "")
        base = len(impl_lines)
        impl_lines.append(lineA(method, uri, hs, body))
        model_lines.append(model_line(method, path, q, hs, body))
        meta.append(("base", base, method, path, q, hs, body))
        # removal variants (coverage oracle on the implementation)
        pairs = split_pairs(q)
        for (pi, k, v) in pairs:
            parts = q.split("&")
            q2 = "&".join(parts[:pi] + parts[pi + 1:])
            impl_lines.append(lineA(method, path + "?" + q2, hs, body))
            model_lines.append(model_line(method, path, q2, hs, body))
            meta.append(("rmq", base, pi, k, v))
        for hi in range(len(hs)):
            hs2 = hs[:hi] + hs[hi + 1:]
            impl_lines.append(lineA(method, uri, hs2, body))
            model_lines.append(model_line(method, path, q, hs2, body))
            meta.append(("rmh", base, hi))
    sd = vlib.scratch_dir("c04")
    rc, so, se = vlib.run_harness(binp, "canon", "\n".join(impl_lines) + "\n", env={"VERIF_OUT": sd + "/o.txt"}, cwd=sd)
    if rc != 0:
        chk.broken.append({"kind": "harness", "name": "canon engine", "why": se[-500:]})
        return
    impl = open(sd + "/o.txt").read().split("\n")[:-1]
    shutil.rmtree(sd, ignore_errors=True)
    model = vlib.run_driver(model_lines)
    for idx, (mt, io, mo) in enumerate(zip(meta, impl, model)):
        ma = mo.split(" ")
        want = "panic" if ma[0] == "panic" else f"{ma[0]} {ma[2]}"
        got = "panic" if io.startswith("panic") else io
        if mt[0] == "base":
            _, base, method, path, q, hs, body = mt
            chk.case(nontrivial_key=(method, path, q, tuple(hs), body))
            chk.count("fn_base")
            if got == "panic":
                chk.count("fn_panic_nonascii_header")
            if ma[0] != "panic" and ma[0] != ma[1]:
                chk.violation("the two signing routes disagree in the model", {"line": model_lines[idx][:400]})
        if want != got and got != "bad-input":
            chk.disagreement("canon-A", {"kind": mt[0], "impl_line": impl_lines[idx][:600]}, want[:200], got[:200])
        if mt[0] == "rmq" and not impl[mt[1]].startswith("panic") and impl[mt[1]] != "bad-input":
            _, base, pi, k, v = mt
            b = meta[base]
            q = b[4]
            if io.split(" ")[0] == impl[base].split(" ")[0]:
                others = [(kk.lower(), vv) for (j, kk, vv) in split_pairs(q) if j != pi]
                if (k.lower(), v) in others:
                    chk.count("fn_exact_duplicate_pair")
                else:
                    chk.count("fn_uncovered_query_pair")
                    concat = [kk + vv for kk, vv in others]
                    fk = "F3-query-concat-collision" if (k.lower() + v) in concat else None
                    chk.violation("a query parameter is not covered by the canonical string (removing it leaves the signed string unchanged)",
                                  {"method": b[2], "path": b[3], "query": q, "removed_pair": [k, v]}, finding_key=fk,
                                  replay_cmd="VERIF_ENGINE=canon harness < " + impl_lines[base][:300])
        if mt[0] == "rmh" and not impl[mt[1]].startswith("panic") and impl[mt[1]] != "bad-input":
            _, base, hi = mt
            b = meta[base]
            hs = b[5]
            name = hs[hi][0].lower()
            if name == "x-ms-azure-host-authorization":
                continue
            if io.split(" ")[0] == impl[base].split(" ")[0]:
                same = [h for j, h in enumerate(hs) if j != hi and h[0].lower() == name]
                if any(h[1].strip(b" \t") == hs[hi][1].strip(b" \t") for h in same):
                    chk.count("fn_exact_duplicate_header")
                    continue
                fk = "F3-repeated-header-last-wins" if same else None
                chk.count("fn_uncovered_header_line")
                chk.violation("a header line is not covered by the canonical string (removing it leaves the signed string unchanged)",
                              {"headers": [(a, b_.decode("latin-1")) for a, b_ in hs], "removed_index": hi}, finding_key=fk,
                              replay_cmd="VERIF_ENGINE=canon harness < " + impl_lines[base][:300])
    chk.sample({"impl_line": impl_lines[0][:300], "impl": impl[0][:200], "model": model[0][:200]})


def route_b(chk, rng, binp):
    n = 300 if chk.tier == "quick" else 10000
    lines, meta = [], []
    for i in range(n):
        method = rng.pick(["GET", "POST", "PUT"])
        path = rng.pick(PATHS)
        q, _ = gen_query(rng)
        hs = {}
        for nme, v in gen_headers(rng, False):
            if nme.lower() not in ("host", "x-ms-azure-host-claims", "x-ms-azure-host-date", "x-ms-azure-host-authorization", "content-length"):
                hs[nme.lower()] = v.strip() or b"v"
        hs = list(hs.items())
        body = None if rng.chance(1, 2) else bytes(rng.below(256) for _ in range(rng.pick([0, 1, 50])))
        url = "http://168.63.129.16" + rng.pick(["", ":80", ":32526"]) + path + ("?" + q if q is not None else "")
        t = ["canonB", hx(method), hx(url), str(len(hs))]
        for nme, v in hs:
            t += [hx(nme), hx(v)]
        t += ["N" if body is None else hx(body), hx(pipegen.KEY[0]), hx(pipegen.KEY[1])]
        lines.append(" ".join(t))
        meta.append((method, url, hs, body))
    sd = vlib.scratch_dir("c04b")
    rc, so, se = vlib.run_harness(binp, "canon", "\n".join(lines) + "\n", env={"VERIF_OUT": sd + "/o.txt"}, cwd=sd)
    impl = open(sd + "/o.txt").read().split("\n")[:-1]
    shutil.rmtree(sd, ignore_errors=True)
    mlines, alines, keep = [], [], []
    for (method, url, hs, body), io in zip(meta, impl):
        t = io.split(" ")
        if t[0] in ("error", "bad-input") or t[0].startswith("panic"):
            chk.count("routeB_" + t[0].split(":")[0])
            continue
        pq = unhx(t[0]).decode()
        nh = int(t[1])
        built = [(unhx(t[2 + 2 * j]).decode(), unhx(t[3 + 2 * j])) for j in range(nh)]
        auth = unhx(t[2 + 2 * nh]).decode()
        path, _, q = pq.partition("?")
        mlines.append(model_line(method, path, q if "?" in pq else None, built, body or b""))
        alines.append(lineA(method, pq, built, body or b""))
        keep.append((method, url, built, body, auth))
    model = vlib.run_driver(mlines)
    sd = vlib.scratch_dir("c04c")
    vlib.run_harness(binp, "canon", "\n".join(alines) + "\n", env={"VERIF_OUT": sd + "/o.txt"}, cwd=sd)
    implA = open(sd + "/o.txt").read().split("\n")[:-1]
    shutil.rmtree(sd, ignore_errors=True)
    for (method, url, built, body, auth), mo, ia in zip(keep, model, implA):
        chk.case(nontrivial_key=("B", method, url, body))
        chk.count("routeB")
        want = "Azure-HMAC-SHA256 %s %s" % (pipegen.KEY[0], e2e.mac_hex(pipegen.KEY[1], unhx(mo.split(" ")[1])))
        if want != auth:
            chk.disagreement("canon-B", {"method": method, "url": url, "built_headers": [(a, b.decode("latin-1")) for a, b in built]}, want, auth)
        # both routes of the REAL code give the same string for the same request
        wantA = "Azure-HMAC-SHA256 %s %s" % (pipegen.KEY[0], e2e.mac_hex(pipegen.KEY[1], unhx(ia.split(" ")[0])))
        if wantA != auth:
            chk.violation("the agent's two signing routes yield different canonical strings for the same request",
                          {"method": method, "url": url, "headers": [(a, b.decode("latin-1")) for a, b in built]}, expected=auth, observed=wantA)


def mac_stage(chk, binp, rng, n):
    """three implementations of the MAC on the same (key text, message): the agent's compute_signature (hmac-sha256 + hex
    crates), the Lean model's own SHA-256/HMAC, and hashlib"""
    import hashlib
    import hmac as pyhmac
    cases = [("4A404E635266556A586E3272357538782F413F4428472B4B6250645367566B59", b"Hello world"), ("", b""), ("00", b""), ("zz", b"x"), ("abc", b"x")]
    for _ in range(n):
        kl = rng.pick([0, 1, 16, 32, 32, 32, 63, 64, 65, 100, 200])
        key = bytes(rng.below(256) for _ in range(kl)).hex()
        if rng.chance(1, 3):
            key = key.upper()
        ml = rng.pick([0, 1, 54, 55, 56, 57, 63, 64, 65, 119, 120, 121, 128, rng.below(700), rng.below(5000)])
        cases.append((key, bytes(rng.below(256) for _ in range(ml))))
    lines = ["mac %s %s" % (hx(k), hx(m) if m else "-") for k, m in cases]
    sd = vlib.scratch_dir("c04m")
    vlib.run_harness(binp, "canon", "\n".join(lines) + "\n", env={"VERIF_OUT": sd + "/o.txt"}, cwd=sd)
    impl = open(sd + "/o.txt").read().split("\n")[:-1]
    shutil.rmtree(sd, ignore_errors=True)
    model = vlib.run_driver(["h" + l for l in lines])
    for (k, m), mo, im in zip(cases, model, impl):
        chk.count("mac_cases")
        try:
            ref = pyhmac.new(bytes.fromhex(k), m, hashlib.sha256).hexdigest()
        except ValueError:
            ref = "bad-key"
        if mo != im:
            chk.disagreement("mac-lean-vs-agent", {"key_text": k, "message_hex": m.hex()}, mo, im)
        if im != ref:
            chk.violation("compute_signature is not HMAC-SHA256 of the message under the hex-decoded key", {"key_text": k, "message_hex": m.hex()},
                          expected=ref, observed=im)
        if ref == "bad-key":
            chk.count("mac_bad_key")


def e2e_oracle_factory(pending):
    def oracle(chk, o, m):
        case = o["case"]
        full = [r for r in o["recs"] if not r.get("partial")]
        key = case["env"].get("key")
        for r in full:
            exempt = m["kind"] == "forward" and m.get("signed") is None
            chk.case(nontrivial_key=("e2e", o["req"]["method"], o["req"]["target"], len(o["req"].get("body") or b""), str(o["req"].get("chunked"))[:20]))
            au = [v for n, v in r["headers"] if n.lower() == b"x-ms-azure-host-authorization"]
            if not key or exempt:
                chk.count("e2e_unsigned")
                continue
            chk.count("e2e_signed")
            d = pipe.Runner.describe(None, o)
            if len(au) != 1:
                chk.violation("relayed request does not carry exactly one authorization header", d, observed=[a.decode("latin-1") for a in au])
                continue
            parts = au[0].decode("latin-1").split(" ")
            if len(parts) != 3 or parts[0] != "Azure-HMAC-SHA256" or parts[1] != key[0]:
                chk.violation("authorization header has the wrong scheme / key id", d, observed=au[0].decode("latin-1"))
                continue
            # what the HOST would compute from the bytes it received
            target = r["target"].decode("latin-1")
            path, _, q = target.partition("?")
            hs = [(n.decode("latin-1"), v) for n, v in r["headers"]]
            pending.append((chk, o, d, parts[2], key, model_line(r["method"].decode(), path, q if "?" in target else None, hs, r["body"])))
    return oracle


def run(chk):
    if not e2e.in_netns():
        e2e.reexec_in_netns()
    rng = vlib.Rng(chk.seed)
    chk.prove()
    if not chk.driver():
        return
    ok, binp, out = vlib.build_harness("agent")
    if not ok:
        chk.broken.append({"kind": "harness", "name": "agent harness build", "why": out[-1500:]})
        return
    function_level(chk, rng, binp)
    route_b(chk, rng, binp)
    mac_stage(chk, binp, rng, 300 if chk.tier == "quick" else 20000)
    stack = e2e.Stack(binp)
    pending = []
    try:
        callers = pipe.Callers(stack)
        pipegen.bind_rule_vocab(callers)
        runner = pipe.Runner(chk, stack, callers)
        st = {}
        for i in range(200 if chk.tier == "quick" else 8000):
            case = pipegen.gen_case(rng, callers, st, dest_label=rng.pick(["imds", "ws", "other"]), with_key=True, spoof=rng.chance(1, 3))
            for ep in ("ws", "imds", "hostga"):
                case["env"][ep] = None
            case["caller"] = callers.caller(0, "curl", True)
            req = case["req"]
            if req["target"] == "/provision" or ".." in req["target"]:
                req["target"] = "/machine?comp=goalstate"
            q, _ = gen_query(rng)
            if rng.chance(1, 2) and "?" not in req["target"] and q:
                req["target"] += "?" + q
            if rng.chance(1, 8) and req["method"] in ("POST", "PUT"):
                req["body"] = b""
                req["chunked"] = [1]          # Transfer-Encoding: chunked with an empty body
            if i % 8 == 5:
                # a kept-alive connection across a key change (none -> K1, K1 -> K2, K2 -> none): every request is signed with the
                # key in force when it is relayed, whatever key earlier requests on that connection were signed with
                k1 = pipegen.KEY
                k2 = ("99999999-8888-7777-6666-%012d" % i, "%064x" % (0xabcdef * (i + 1)))
                keys = rng.pick([[None, k1], [k1, k2], [k1, k2, k1], [k2, None, k1]])
                conn = None
                for kk in keys:
                    c2 = dict(case, env=dict(case["env"], key=kk), req=dict(case["req"]))
                    chk.count("kept_connection_key_change_requests")
                    try:
                        o2 = runner.run_case(c2, conn=conn, keep_conn=True)
                    except OSError:
                        break
                    if conn is not None and o2["resp"] is None and not o2["recs"]:
                        runner.observations.remove(o2)
                        chk.count("kept_connection_was_closed")
                        break
                    conn, o2["conn"] = o2["conn"], None
                    if o2["resp"] is None or o2["resp"]["status"] >= 400 or \
                            (e2e.hget(o2["resp"]["headers"], b"connection") or b"").lower() == b"close":
                        break
                if conn is not None:
                    conn.close()
                continue
            runner.run_case(case)
        # the key changes while a request's body is still arriving (first latch, rotation, clear): what the host receives is signed
        # with the key in force when the request is complete and relayed
        k1 = pipegen.KEY
        for k, (before, after) in enumerate([(None, k1), (k1, ("77777777-0000-0000-0000-000000000007", "7c" * 32)), (k1, None),
                                             (("77777777-0000-0000-0000-000000000007", "7c" * 32), k1), (None, k1), (k1, None)]):
            c_ = pipegen.gen_case(rng, callers, st, dest_label="ws", with_key=True, spoof=(k % 2 == 0))
            for ep in ("ws", "imds", "hostga"):
                c_["env"][ep] = None
            c_["caller"] = callers.caller(0, "curl", True)
            c_["env"]["key"] = before
            c_["env_after_head"] = dict(c_["env"], key=after)
            c_["req"] = dict(c_["req"], method="POST", target="/machine?comp=health&mid=%d" % k, body=bytes(rng.below(256) for _ in range(3000)), chunked=None)
            chk.count("key_changed_while_the_body_arrived")
            runner.run_case(c_)
        # the host drops the kept upstream connection after a response; a further request on the same client connection is either
        # not relayed at all or relayed signed like any other
        orc = e2e_oracle_factory(pending)
        for k in range(4 if chk.tier == "quick" else 40):
            c1 = pipegen.gen_case(rng, callers, st, dest_label="ws", with_key=True)
            c2 = pipegen.gen_case(rng, callers, st, dest_label="ws", with_key=True, spoof=rng.chance(1, 2))
            for c_ in (c1, c2):
                for ep in ("ws", "imds", "hostga"):
                    c_["env"][ep] = None
            c1["caller"] = callers.caller(0, "curl", True)
            c1["req"] = {"method": "GET", "target": "/machine?comp=goalstate&first=%d" % k, "headers": [(b"Host", b"h")], "body": None, "chunked": None}
            c2["env"] = c1["env"]
            if c2["req"]["target"] == "/provision" or ".." in c2["req"]["target"]:
                c2["req"]["target"] = "/machine?comp=goalstate&second=%d" % k

            def after_close(chk_, o, m):
                # a request that reached the host although the model expected a signature must carry one (the regular oracle skips
                # unsigned requests only when no key is latched or the URL is exempt)
                full = [r for r in o["recs"] if not r.get("partial")]
                if m["kind"] == "forward" and m.get("signed") is not None:
                    for r in full:
                        if not [v for n, v in r["headers"] if n.lower() == b"x-ms-azure-host-authorization"]:
                            chk_.violation("relayed request does not carry exactly one authorization header", pipe.Runner.describe(None, o), observed=[])
                orc(chk_, o, m)
            runner.run_after_host_close(c1, c2, after_close, chk.count)
        runner.finish(orc)
        outs = vlib.run_driver([p[5] for p in pending]) if pending else []
        for (chk_, o, d, mac, key, line), mo in zip(pending, outs):
            s = mo.split(" ")[0]
            if s == "panic":
                continue
            want = e2e.mac_hex(key[1], unhx(s))
            if want != mac:
                req = o["req"]
                fk = "F9-empty-chunked-te-dropped" if (req.get("chunked") is not None and not (req.get("body") or b"")) else None
                d["host_received"] = o["recs"][0]["raw"][:600].decode("latin-1") if o["recs"] else None
                chk.violation("the MAC does not verify over the request as the host received it", d, expected=want, observed=mac, finding_key=fk)
        chk.sample(runner.describe(runner.observations[0]))
    finally:
        stack.close()
    # signing across key keeper polls on a connection that stays open (rotation, disable, enable, shutdown signal)
    from checks import c09
    c09.keepalive_signing(chk, binp)
    chk.coverage["rule"] = ("function level: (method, uri, headers, body) with duplicate/valueless/prefix-related/mixed-case/percent-escaped "
                            "query keys, repeated header names in any case, blanks, bodies with LF, each also with every single query "
                            "pair / header line removed (coverage oracle); route B through build_request under a known key; e2e: the mock "
                            "host's received bytes are re-canonicalised by the Lean model and the MAC recomputed with hashlib")
    chk.assumptions += ["the host's verifier canonicalises exactly like the agent (same algorithm applied to the received bytes)",
                        "SHA-256/HMAC: the agent's compute_signature, the Lean model's own SHA-256/HMAC and hashlib are compared on random keys/messages (block-boundary lengths, keys longer than a block, non-hex keys) on every run; MACs on the wire are then checked with hashlib"]
