"""Case generators for the e2e pipeline properties."""
import e2e
from checks import c02 as rb

DESTS = [("ws", e2e.WS), ("ga", e2e.GA), ("imds", e2e.IMDS), ("self", e2e.SELF), ("other", e2e.OTHER)]
KEY = ("11111111-2222-3333-4444-555555555555", "4a" * 32)


def bind_rule_vocab(callers):
    """make the C02 document generator talk about the callers that really exist"""
    rb.USERS = ["root", "alice", "bob"]
    rb.GROUPS = ["users", "docker", "adm", "wheel", "root"]
    rb.PROCS = ["curl", "waagent", "python3", "azure-monitor-agent-core"]
    rb.EXES = [callers.procs[n]["exe"] for n in ("curl", "waagent", "python3", "tool")]


def gen_env(rng, st, with_key=None, distinct_only=True):
    env = {}
    for ep in ("ws", "imds", "hostga"):
        r = rng.below(10)
        if r < 3:
            env[ep] = None
        else:
            for _ in range(20):
                d = rb.gen_doc(rng, st)
                if not distinct_only or not rb.has_dup(d):
                    break
            env[ep] = d
    if with_key is None:
        with_key = rng.chance(1, 2)
    env["key"] = KEY if with_key else None
    return env


def gen_caller(rng, callers):
    uid = rng.pick([0, 0, 1000, 1001, 1002])
    proc = rng.pick(["curl", "waagent", "python3", "tool", "azure-monitor-agent-core", "azure-monitor-attacker"])
    elevated = (uid == 0) if rng.chance(9, 10) else (uid != 0)
    return callers.caller(uid, proc, elevated)


def gen_target(rng, env, dest_label):
    ep = {"ws": "ws", "ga": "hostga", "imds": "imds"}.get(dest_label)
    doc = env.get(ep) if ep else None
    r = rng.below(20)
    if r == 0:
        return rng.pick(["/a/../b", "/..", "/metadata/../secret", "/x/..", "/..a", "/a..b/c"])
    if r == 1:
        return "/provision"
    if r == 2:
        return rng.pick(["/vmAgentLog", "/machine/?comp=telemetrydata", "/VMAGENTLOG", "/machine/?COMP=TelemetryData"])
    if doc:
        path, q = rb.gen_url(rng, doc)
    else:
        path, q = rng.pick(rb.PATHS), None
    path = "".join(ch for ch in path if 32 < ord(ch) < 127 and ch not in '?#"<>\\^`{|} ') or "/"
    if q is not None:
        q = "".join(ch for ch in q if 32 < ord(ch) < 127 and ch not in '#"<>\\^`{|} ')
    return path + ("?" + q if q is not None else "")


def gen_headers(rng, spoof=False):
    hs = [(b"Host", b"metadata")]
    pool = [(b"Metadata", b"true"), (b"x-ms-version", b"2012-11-30"), (b"Accept", b"*/*"), (b"User-Agent", b"verif/1.0"),
            (b"X-Custom", b"  padded value  "), (b"x-dup", b"one"), (b"X-Dup", b"two"), (b"x-empty", b""),
            (b"Accept-Language", b"en-US,en;q=0.5"), (b"x-ms-client-request-id", b"abc-123"),
            (b"Connection", b"keep-alive"), (b"TE", b"trailers"), (b"Cache-Control", b"no-cache")]
    for h in pool:
        if rng.chance(1, 3):
            hs.append(h)
    if spoof and rng.chance(1, 4):
        # hop-by-hop nomination (RFC 9110 7.6.1) of the proxy's own headers, in any letter case, must not remove them
        opts = [b"x-ms-azure-host-claims", b"X-Ms-Azure-Host-Date", b"x-ms-azure-host-authorization", b"close", b"keep-alive", b"x-custom"]
        pick = [o for o in opts if rng.chance(1, 2)] or [opts[0]]
        hs = [h for h in hs if h[0].lower() != b"connection"] + [(b"Connection", b", ".join(pick))]
    if spoof:
        names = [b"x-ms-azure-host-claims", b"x-ms-azure-host-date", b"x-ms-azure-host-authorization"]
        for n in names:
            for _ in range(rng.below(4)):
                nn = bytes(ch ^ 0x20 if (65 <= ch <= 90 or 97 <= ch <= 122) and rng.chance(1, 3) else ch for ch in n)
                v = rng.pick([b'{ "isRoot": "true"}', b"Mon, 01 Jan 2001 00:00:00 GMT", b"Azure-HMAC-SHA256 00000000-0000-0000-0000-000000000000 deadbeef", b"x"])
                hs.append((nn, v))
    return rng.shuffle(hs)


def gen_req(rng, env, dest_label, spoof=False):
    method = rng.pick(["GET", "GET", "GET", "POST", "PUT", "DELETE", "HEAD"])
    target = gen_target(rng, env, dest_label)
    if target.lower() == "/vmagentlog":
        method = rng.pick(["PUT", "PUT", "GET"])
    if target.lower() == "/machine/?comp=telemetrydata":
        method = rng.pick(["POST", "POST", "GET"])
    body = None
    chunked = None
    if method in ("POST", "PUT") and rng.chance(3, 4):
        n = rng.pick([0, 1, 5, 100, 3000])
        body = bytes(rng.below(256) for _ in range(n))
        if rng.chance(1, 3) and n > 0:
            chunked = [rng.rand_range(1, max(1, n)) for _ in range(rng.rand_range(1, 4))]
    return {"method": method, "target": target, "headers": gen_headers(rng, spoof), "body": body, "chunked": chunked}


def gen_plan(rng):
    if rng.chance(1, 2):
        return None
    status = rng.pick([200, 200, 201, 404, 500, 403, 204, 302])
    body = bytes(rng.below(256) for _ in range(rng.pick([0, 1, 10, 500, 5000])))
    framing = rng.pick(["cl", "cl", "chunked"])
    plan = {"status": status, "reason": "Verif", "headers": [(b"content-type", b"application/octet-stream"),
                                                           (b"x-host-header", b"v1"), (b"x-host-header", b"v2")],
            "body": body, "framing": framing}
    if rng.chance(1, 8):
        # a large response head: long header lines, fewer than the 100 lines hyper's HTTP/1 parser accepts by default
        k = rng.pick([20, 40, 80])
        plan["headers"] = plan["headers"] + [(b"x-big-%d" % i, b"v" * 1000) for i in range(k)]
    if framing == "chunked" and body:
        plan["chunks"] = [rng.rand_range(1, len(body)) for _ in range(rng.rand_range(1, 5))]
    if rng.chance(1, 2):
        plan["splits"] = [rng.rand_range(1, 200) for _ in range(rng.rand_range(1, 4))]
    return plan


def gen_case(rng, callers, st, spoof=False, dest_label=None, with_key=None, direct_rate=8):
    env = gen_env(rng, st, with_key)
    if dest_label is None and rng.chance(1, direct_rate):
        req = gen_req(rng, env, "ws", spoof)
        return {"env": env, "caller": None, "dest": None, "req": req, "plan": None, "label": "direct"}
    label, addr = (dest_label, dict(DESTS)[dest_label]) if dest_label else rng.pick(DESTS)
    caller = gen_caller(rng, callers)
    # steer: make the caller match an identity of the applicable document fairly often
    ep = {"ws": "ws", "ga": "hostga", "imds": "imds"}.get(label)
    doc = env.get(ep) if ep else None
    if doc and rng.chance(1, 2):
        idents = ((doc.get("rules") or {}).get("identities") or [])
        if idents:
            i = rng.pick(idents)
            uid = {"root": 0, "alice": 1000, "bob": 1001}.get(i.get("userName"), caller["uid"])
            proc = i.get("processName") or caller["proc"]
            if i.get("exePath"):
                for n, p in callers.procs.items():
                    if p["exe"].split("/")[-1] in i["exePath"]:
                        proc = n
            caller = callers.caller(uid, proc, uid == 0)
    req = gen_req(rng, env, label, spoof)
    return {"env": env, "caller": caller, "dest": addr, "req": req, "plan": gen_plan(rng), "label": label}


def query_rule_sessions(callers, key=KEY):
    """sessions for ONE kept-alive connection each: the same path asked with different query strings that the rules tell apart, and
    the rule set replaced between identical requests. Returns a list of lists of cases (IMDS, caller alice)."""
    def qdoc(granted, mode="enforce"):
        return {"id": "q-" + granted + "-" + mode, "mode": mode, "defaultAccess": "deny", "rules": {
            "privileges": [{"name": "p1", "path": "/metadata/instance", "queryParameters": {"resource": granted}}],
            "roles": [{"name": "r1", "privileges": ["p1"]}],
            "identities": [{"name": "i1", "userName": "alice"}],
            "roleAssignments": [{"role": "r1", "identities": ["i1"]}]}}
    alice = callers.caller(1000, "curl", False)

    def qreq(resource, doc, extra=""):
        return {"env": {"ws": None, "imds": doc, "hostga": None, "key": key}, "caller": alice, "dest": dict(DESTS)["imds"], "label": "imds",
                "plan": None, "req": {"method": "GET", "target": "/metadata/instance?resource=%s%s" % (resource, extra),
                                      "headers": [(b"Host", b"h")], "body": None, "chunked": None}}
    ds, dv, da = qdoc("storage"), qdoc("vault"), qdoc("storage", "audit")
    return [[qreq("storage", ds), qreq("vault", ds), qreq("storage", ds), qreq("vault", ds, "&x=1")],
            [qreq("vault", ds), qreq("storage", ds), qreq("STORAGE", ds), qreq("vault", ds)],
            [qreq("storage", ds), qreq("storage", dv), qreq("vault", dv), qreq("vault", ds), qreq("storage", ds)],
            [qreq("storage", ds), qreq("storage", da), qreq("vault", da), qreq("vault", da), qreq("vault", ds)]]


def process_name_cases(callers, key=KEY):
    """rules that name a program by a name longer than 15 bytes: the program itself, and another one whose name agrees with it in
    the first 15 bytes only (IMDS, user alice); by process name and by executable path"""
    long_, near = "azure-monitor-agent-core", "azure-monitor-attacker"

    def doc(ident, mode="enforce"):
        return {"id": "pn-" + "-".join(sorted(ident)), "mode": mode, "defaultAccess": "deny", "rules": {
            "privileges": [{"name": "p1", "path": "/metadata", "queryParameters": None}],
            "roles": [{"name": "r1", "privileges": ["p1"]}],
            "identities": [dict({"name": "i1"}, **ident)],
            "roleAssignments": [{"role": "r1", "identities": ["i1"]}]}}
    out = []
    for ident in ({"processName": long_}, {"exePath": callers.procs[long_]["exe"]}, {"processName": long_, "userName": "alice"}):
        for proc in (long_, near, "curl"):
            out.append({"env": {"ws": None, "imds": doc(ident), "hostga": None, "key": key}, "caller": callers.caller(1000, proc, False),
                        "dest": dict(DESTS)["imds"], "label": "imds", "plan": None,
                        "req": {"method": "GET", "target": "/metadata/instance?who=" + proc[-8:], "headers": [(b"Host", b"h")], "body": None, "chunked": None}})
    return out
