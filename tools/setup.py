#!/usr/bin/env python3
"""MANIFEST.setup_cmd: build the framework once, offline, from files on disk."""
import os
import sys
sys.path.insert(0, os.path.dirname(os.path.abspath(__file__)))
import vlib

def main():
    vlib.regen_facts()
    ok, out = vlib.lake_build(["Gpa", "gpa-driver"])
    print(out[-3000:])
    rc = 0 if ok else 1
    for kind in vlib.FARMS:
        if not os.path.exists(vlib.FARMS[kind][1]):
            continue
        hok, binp, hout = vlib.build_harness(kind)
        print(f"harness {kind}: {'ok' if hok else 'FAILED'}")
        if not hok:
            print(hout[-3000:])
            rc = 1
    for extra in getattr(vlib, "EXTRA_SETUP", []):
        extra()
    return rc

if __name__ == "__main__":
    sys.exit(main())
