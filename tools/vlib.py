"""Shared machinery for /verif checks: facts, lake, cargo harness farm, driver, evidence, verdicts."""
import contextlib
import fcntl
import hashlib
import json
import os
import re
import shutil
import subprocess
import sys
import time

HERE = os.path.dirname(os.path.abspath(__file__))
VERIF = os.path.dirname(HERE)
REPO = os.environ.get("VERIF_REPO", "/repo")
LEAN = os.path.join(VERIF, "lean")
CACHE = os.path.join(VERIF, ".cache")
EVID = os.path.join(VERIF, "evidence")
REPLAY = os.path.join(EVID, "replay")
DRIVER = os.path.join(LEAN, ".lake", "build", "bin", "gpa-driver")
GUARD = "azure_guestproxyagent_verif"
ALLOWED_AXIOMS = {"propext", "Classical.choice", "Quot.sound"}

sys.path.insert(0, HERE)
import extract_facts  # noqa: E402


def log(*a):
    print(*a, file=sys.stderr, flush=True)


def seed():
    try:
        return int(os.environ.get("VERIF_SEED", "1"))
    except ValueError:
        return 1


class Rng:
    """splitmix64 — every random choice of a run derives from VERIF_SEED through this."""

    def __init__(self, s):
        self.s = (s * 0x9E3779B97F4A7C15 + 0x1234567) & 0xFFFFFFFFFFFFFFFF

    def next(self):
        self.s = (self.s + 0x9E3779B97F4A7C15) & 0xFFFFFFFFFFFFFFFF
        z = self.s
        z = ((z ^ (z >> 30)) * 0xBF58476D1CE4E5B9) & 0xFFFFFFFFFFFFFFFF
        z = ((z ^ (z >> 27)) * 0x94D049BB133111EB) & 0xFFFFFFFFFFFFFFFF
        return z ^ (z >> 31)

    def below(self, n):
        return self.next() % n if n > 0 else 0

    def chance(self, num, den):
        return self.below(den) < num

    def pick(self, xs):
        return xs[self.below(len(xs))]

    def rand_range(self, lo, hi):  # inclusive
        return lo + self.below(hi - lo + 1)

    def shuffle(self, xs):
        xs = list(xs)
        for i in range(len(xs) - 1, 0, -1):
            j = self.below(i + 1)
            xs[i], xs[j] = xs[j], xs[i]
        return xs

    def fork(self):
        return Rng(self.next())


def hx(b):
    if isinstance(b, str):
        b = b.encode("utf-8")
    return b.hex() if b else "-"


def unhx(s):
    return b"" if s == "-" else bytes.fromhex(s)


@contextlib.contextmanager
def locked(name):
    os.makedirs(CACHE, exist_ok=True)
    f = open(os.path.join(CACHE, name + ".lock"), "w")
    try:
        fcntl.flock(f, fcntl.LOCK_EX)
        yield
    finally:
        fcntl.flock(f, fcntl.LOCK_UN)
        f.close()


def env_offline(extra=None):
    e = dict(os.environ)
    e.update({"CARGO_NET_OFFLINE": "true", "GOPROXY": "off", "PIP_NO_INDEX": "1"})
    if extra:
        e.update(extra)
    return e


# ------------------------------------------------------------------ facts + lean

def regen_facts():
    """Regenerate Facts.lean from /repo; returns (facts, problems)."""
    with locked("lake"):
        facts, problems = extract_facts.extract()
        text = extract_facts.render(facts)
        try:
            old = open(extract_facts.OUT).read()
        except OSError:
            old = None
        if old != text:
            os.makedirs(os.path.dirname(extract_facts.OUT), exist_ok=True)
            open(extract_facts.OUT + ".tmp", "w").write(text)
            os.replace(extract_facts.OUT + ".tmp", extract_facts.OUT)
    return facts, problems


def lake_build(targets, timeout=1800):
    """Build lake targets; returns (ok, output)."""
    with locked("lake"):
        p = subprocess.run(["lake", "build"] + list(targets), cwd=LEAN, env=env_offline(),
                           stdout=subprocess.PIPE, stderr=subprocess.STDOUT, text=True, timeout=timeout)
    return p.returncode == 0, p.stdout


def failed_theorems(output):
    """Names/locations of failing declarations from lake output (best effort)."""
    errs = []
    for m in re.finditer(r"^error: ([^\n:]+\.lean):(\d+):(\d+): ([^\n]*)", output, flags=re.M):
        errs.append({"file": m.group(1), "line": int(m.group(2)), "msg": m.group(4)[:300]})
    # map line numbers to enclosing theorem names
    for e in errs:
        path = os.path.join(LEAN, e["file"])
        try:
            lines = open(path).read().splitlines()
        except OSError:
            continue
        name = None
        for i in range(min(e["line"], len(lines)) - 1, -1, -1):
            mm = re.match(r"\s*(?:@\[[^\]]*\]\s*)?(?:private\s+)?(theorem|lemma|example|def|instance)\s+([^\s:(\[{]+)?", lines[i])
            if mm:
                name = (mm.group(2) or "example") if mm.group(1) != "example" else f"example@{i+1}"
                break
        e["decl"] = name
    return errs


def grep_forbidden(modules_dirs=("Gpa",)):
    """sorry/admit/axiom/native_decide/... outside comments anywhere in the Lean project."""
    bad = []
    pat = re.compile(r"\b(sorry|admit|native_decide|bv_decide|implemented_by|unsafe)\b|^\s*axiom\s|maxHeartbeats\s+0\b")
    for d in modules_dirs + ("Driver",):
        for root, _, files in os.walk(os.path.join(LEAN, d)):
            for fn in files:
                if not fn.endswith(".lean"):
                    continue
                p = os.path.join(root, fn)
                src = open(p).read()
                # strip block comments and line comments
                src2 = re.sub(r"/-.*?-/", lambda m: "\n" * m.group(0).count("\n"), src, flags=re.S)
                for i, line in enumerate(src2.splitlines(), 1):
                    line = line.split("--")[0]
                    if pat.search(line):
                        bad.append(f"{os.path.relpath(p, LEAN)}:{i}: {line.strip()[:120]}")
    return bad


def theorem_names(prop_id):
    """All theorem names declared in Gpa/Props/<id>.lean (fully qualified)."""
    p = os.path.join(LEAN, "Gpa", "Props", f"{prop_id}.lean")
    src = open(p).read()
    src = re.sub(r"/-.*?-/", "", src, flags=re.S)
    ns = []
    names = []
    for line in src.splitlines():
        line = line.split("--")[0]
        m = re.match(r"\s*namespace\s+(\S+)", line)
        if m:
            ns.append(m.group(1))
            continue
        m = re.match(r"\s*end\s+(\S+)", line)
        if m and ns and ns[-1] == m.group(1):
            ns.pop()
            continue
        m = re.match(r"\s*(?:@\[[^\]]*\]\s*)?(?:private\s+|protected\s+)?theorem\s+([^\s:(\[{]+)", line)
        if m:
            names.append(".".join(ns + [m.group(1)]))
    return names


def count_examples(prop_id):
    p = os.path.join(LEAN, "Gpa", "Props", f"{prop_id}.lean")
    src = re.sub(r"/-.*?-/", "", open(p).read(), flags=re.S)
    return len(re.findall(r"^\s*example\b", src, flags=re.M))


def axiom_audit(prop_id, names):
    """#print axioms for every theorem of the property module; returns (ok, {name: [axioms]}, raw)."""
    os.makedirs(os.path.join(CACHE, "audit"), exist_ok=True)
    f = os.path.join(CACHE, "audit", f"Audit_{prop_id}_{os.getpid()}.lean")
    with open(f, "w") as fh:
        fh.write(f"import Gpa.Props.{prop_id}\n")
        for n in names:
            fh.write(f"#print axioms {n}\n")
    with locked("lake"):
        p = subprocess.run(["lake", "env", "lean", f], cwd=LEAN, env=env_offline(),
                           stdout=subprocess.PIPE, stderr=subprocess.STDOUT, text=True, timeout=1200)
    os.unlink(f)
    out = p.stdout
    res = {}
    ok = p.returncode == 0
    for m in re.finditer(r"'([^']+)' (depends on axioms: \[([^\]]*)\]|does not depend on any axioms)", out, flags=re.S):
        ax = [a.strip() for a in (m.group(3) or "").replace("\n", " ").split(",") if a.strip()]
        res[m.group(1)] = ax
        if not set(ax) <= ALLOWED_AXIOMS:
            ok = False
    for n in names:
        if n not in res:
            ok = False
    return ok, res, out


def leanchecker(module):
    with locked("lake"):
        p = subprocess.run(["lake", "env", "leanchecker", module], cwd=LEAN, env=env_offline(),
                           stdout=subprocess.PIPE, stderr=subprocess.STDOUT, text=True, timeout=1800)
    return p.returncode == 0, p.stdout[-2000:]


def build_driver():
    ok, out = lake_build(["gpa-driver"])
    return ok, out


def run_driver(lines, timeout=1800):
    """Feed lines to the compiled Lean driver; returns list of output lines (one per input line)."""
    data = "".join(l + "\n" for l in lines)
    p = subprocess.run([DRIVER], input=data, stdout=subprocess.PIPE, stderr=subprocess.PIPE, text=True,
                       timeout=timeout)
    if p.returncode != 0:
        raise RuntimeError(f"driver failed rc={p.returncode}: {p.stderr[-500:]}")
    out = p.stdout.split("\n")
    if out and out[-1] == "":
        out.pop()
    if len(out) != len(lines):
        raise RuntimeError(f"driver produced {len(out)} lines for {len(lines)} ops")
    return out


# ------------------------------------------------------------------ rust harness farm

# files of a farm that are generated copies instead of links: /repo's text plus the lines given here (a child module may call the
# private functions of the module it is declared in)
FARM_APPEND = {
    "ext": {"service_main.rs": '\n#[path = "%s"]\npub mod verif_child;\n' % os.path.join(VERIF, "harness", "ext_service_main_child.rs")},
}

FARMS = {
    # kind: (repo crate dir, engines file in /verif, package name)
    "agent": ("proxy_agent", os.path.join(VERIF, "harness", "agent_engines.rs"), "gpa-harness-agent"),
    "ext": ("proxy_agent_extension", os.path.join(VERIF, "harness", "ext_engines.rs"), "gpa-harness-ext"),
}


def _gen_main(orig_main_src, engines_path):
    """The harness crate root = /repo's own main.rs (module tree, crate-level items) with its `main`
    renamed, plus our engines module. Nothing of /repo is copied except this transformed root."""
    s = orig_main_src
    s = re.sub(r"#\[tokio::main[^\]]*\]\s*", "", s)
    s, n = re.subn(r"\bfn\s+main\s*\(", "fn __verif_orig_main(", s, count=1)
    if n != 1:
        raise RuntimeError("cannot find fn main in crate root")
    # inner attributes must stay first: put our allow after any leading //-comments and #![..] lines
    header = "#![allow(dead_code, unused_imports, unused_variables, non_snake_case)]\n"
    s = header + s
    s += f"\n#[path = \"{engines_path}\"]\npub mod verif_engines;\nfn main() {{ verif_engines::main(); }}\n"
    return s


def _gen_cargo(orig_toml, crate_dir, pkg):
    s = orig_toml
    s = re.sub(r'(?m)^name\s*=\s*"[^"]*"', f'name = "{pkg}"', s, count=1)
    s = re.sub(r'(?m)^build\s*=.*\n', "", s)
    s = re.sub(r'path\s*=\s*"\.\./proxy_agent_shared"', f'path = "{REPO}/proxy_agent_shared"', s)
    # drop packaging metadata
    s = re.sub(r"(?ms)^\[package\.metadata\.deb\].*?(?=^\[|\Z)", "", s)
    s += "\n[workspace]\n\n[[bin]]\nname = \"%s\"\npath = \"src/main.rs\"\n" % pkg
    if "[lints.rust]" not in s:
        s += "\n[lints.rust]\nunexpected_cfgs = { level = \"allow\" }\n"
    return s


def build_harness(kind, timeout=3600):
    """(Re)create the symlink farm over /repo's sources and build it. Returns (ok, bin_path, output)."""
    crate, engines, pkg = FARMS[kind]
    farm = os.path.join(CACHE, f"farm-{kind}")
    src = os.path.join(farm, "src")
    rsrc = os.path.join(REPO, crate, "src")
    with locked("cargo"):
        os.makedirs(src, exist_ok=True)
        # refresh links
        appended = FARM_APPEND.get(kind, {})
        want = {e for e in os.listdir(rsrc) if e != "main.rs" and e not in appended}
        for e in os.listdir(src):
            p = os.path.join(src, e)
            if e == "main.rs" or e in appended:
                continue
            if e not in want or not os.path.islink(p) or os.readlink(p) != os.path.join(rsrc, e):
                if os.path.islink(p) or os.path.isfile(p):
                    os.unlink(p)
                else:
                    shutil.rmtree(p)
        for e in want:
            p = os.path.join(src, e)
            if not os.path.lexists(p):
                os.symlink(os.path.join(rsrc, e), p)
        for e, extra in appended.items():
            txt = open(os.path.join(rsrc, e)).read() + extra
            pth = os.path.join(src, e)
            if os.path.islink(pth):
                os.unlink(pth)
            try:
                old = open(pth).read()
            except OSError:
                old = None
            if old != txt:
                open(pth, "w").write(txt)
        try:
            main_txt = _gen_main(open(os.path.join(rsrc, "main.rs")).read(), engines)
            cargo_txt = _gen_cargo(open(os.path.join(REPO, crate, "Cargo.toml")).read(), crate, pkg)
        except Exception as e:  # noqa
            return False, None, f"farm generation failed: {e}"
        for path, txt in ((os.path.join(src, "main.rs"), main_txt), (os.path.join(farm, "Cargo.toml"), cargo_txt)):
            try:
                old = open(path).read()
            except OSError:
                old = None
            if old != txt:
                open(path, "w").write(txt)
        shutil.copyfile(os.path.join(REPO, "Cargo.lock"), os.path.join(farm, "Cargo.lock"))
        env = env_offline({"RUSTFLAGS": f"--cfg {GUARD}",
                           "CARGO_TARGET_DIR": os.path.join(CACHE, "target")})
        p = subprocess.run(["cargo", "build", "--offline", "--bin", pkg], cwd=farm, env=env,
                           stdout=subprocess.PIPE, stderr=subprocess.STDOUT, text=True, timeout=timeout)
        binp = os.path.join(CACHE, "target", "debug", pkg)
        ok = p.returncode == 0 and os.path.exists(binp)
        return ok, binp, p.stdout[-6000:]


def run_harness(binp, engine, stdin_text, env=None, cwd=None, timeout=1800, wrapper=None):
    """Run a harness engine: no argv (the agent's clap CLI reads argv lazily); engine via env."""
    e = dict(os.environ)
    e["VERIF_ENGINE"] = engine
    if env:
        e.update(env)
    cmd = (wrapper or []) + [binp]
    p = subprocess.run(cmd, input=stdin_text, stdout=subprocess.PIPE, stderr=subprocess.PIPE, text=True,
                       env=e, cwd=cwd, timeout=timeout)
    return p.returncode, p.stdout, p.stderr


def scratch_dir(tag):
    d = os.path.join(CACHE, "scratch", f"{tag}-{os.getpid()}-{int(time.time()*1000)%100000}")
    os.makedirs(d, exist_ok=True)
    return d


# ------------------------------------------------------------------ known findings

def _kinds(vs):
    out = {}
    for v in vs:
        k = v["what"][:90] + " | key=" + str(v.get("finding_key"))
        out[k] = out.get(k, 0) + 1
    return out


def load_known_findings():
    p = os.path.join(VERIF, "known_findings.json")
    try:
        return json.load(open(p))
    except OSError:
        return {"findings": [], "fixed": []}


# ------------------------------------------------------------------ verdict + evidence

class Check:
    """Collects obligations, correspondence counts and violations for one property run."""

    def __init__(self, prop_id, tier):
        self.id = prop_id
        self.tier = tier
        self.seed = seed()
        self.t0 = time.time()
        self.obligations = 0
        self.discharged = 0
        self.broken = []          # names of theorems / correspondence streams that no longer check
        self.violations = []      # dicts with concrete failing inputs (impl contradicts oracle)
        self.disagreements = []   # impl vs model, with shrunk case where available
        self.known_hits = []
        self.coverage = {}
        self.samples = []
        self.assumptions = []
        self.trusted = []
        self.counts = {}
        self.notes = []
        self.checker_cmd = ""
        self.evaluations = 0
        self.nontrivial = set()
        os.makedirs(REPLAY, exist_ok=True)

    # ---- proof side
    def prove(self, thorough_extra=True):
        """regenerate facts, build the property module, audit axioms. Fills obligations."""
        facts, problems = regen_facts()
        self.facts = {k: v["value"] for k, v in facts.items()}
        self.fact_changes = {k: v["value"] for k, v in facts.items() if v["value"] != v["default"]}
        for pr in problems:
            if self.id in pr.get("props", []) or not pr.get("props"):
                self.broken.append({"kind": "fact", "name": pr["fact"], "file": pr["file"], "why": pr["why"]})
        target = f"Gpa.Props.{self.id}"
        ok, out = lake_build([target])
        names = theorem_names(self.id)
        nex = count_examples(self.id)
        self.obligations = len(names) + nex
        self.checker_cmd = f"cd {LEAN} && lake build {target} && #print axioms (each theorem)"
        if ok:
            self.discharged = len(names) + nex
            aok, axioms, raw = axiom_audit(self.id, names)
            self.axioms = axioms
            if not aok:
                self.discharged = 0
                self.broken.append({"kind": "axioms", "name": "axiom audit", "why": raw[-800:]})
        else:
            errs = failed_theorems(out)
            failing = sorted({e.get("decl") or "?" for e in errs})
            self.discharged = max(0, self.obligations - max(1, len(failing)))
            for e in errs[:20]:
                self.broken.append({"kind": "theorem", "name": e.get("decl"), "file": e["file"],
                                    "line": e["line"], "why": e["msg"]})
            if not errs:
                self.broken.append({"kind": "theorem", "name": target, "why": out[-800:]})
            self.axioms = {}
        bad = grep_forbidden()
        if bad:
            self.broken.append({"kind": "forbidden", "name": "sorry/axiom/native_decide grep", "why": "; ".join(bad[:10])})
            self.discharged = 0
        if self.tier == "thorough" and ok:
            lok, lout = leanchecker(target)
            self.notes.append(f"leanchecker {target}: {'ok' if lok else 'FAILED'}")
            if not lok:
                self.broken.append({"kind": "leanchecker", "name": target, "why": lout})
        self.trusted = [
            "Lean 4.33.0 kernel" + (" + leanchecker re-check" if self.tier == "thorough" else ""),
            "axioms used by the property theorems: " + (", ".join(sorted({a for v in getattr(self, 'axioms', {}).values() for a in v})) or "none"),
            "tools/extract_facts.py (regex extraction of constants from /repo, one anchored match each)",
            "hand-written Lean model tied to the code only by the differential correspondence check (testing, not proof)",
        ]
        return ok

    def driver(self):
        ok, out = build_driver()
        if not ok:
            self.broken.append({"kind": "driver", "name": "gpa-driver", "why": out[-800:]})
        return ok

    # ---- correspondence side
    def count(self, key, n=1):
        self.counts[key] = self.counts.get(key, 0) + n

    def case(self, nontrivial_key=None):
        self.evaluations += 1
        if nontrivial_key is not None:
            self.nontrivial.add(nontrivial_key)

    def sample(self, s, limit=6):
        if len(self.samples) < limit:
            self.samples.append(s)

    def violation(self, what, case, expected=None, observed=None, replay_cmd=None, finding_key=None):
        self.violations.append({"what": what, "case": case, "expected": expected, "observed": observed,
                                "replay_cmd": replay_cmd, "finding_key": finding_key})

    def disagreement(self, stream, case, model, impl):
        self.disagreements.append({"stream": stream, "case": case, "model": model, "impl": impl})

    # ---- finish
    def finish(self, level="proof"):
        known = load_known_findings()
        listed = [f for f in known.get("findings", []) if f.get("property") == self.id]
        new_viol = []
        seen_known = {}
        for v in self.violations:
            hit = None
            for f in listed:
                if v.get("finding_key") and v["finding_key"] == f.get("key"):
                    hit = f
                    break
            if hit:
                seen_known.setdefault(hit["key"], (hit, 0))
                seen_known[hit["key"]] = (hit, seen_known[hit["key"]][1] + 1)
            else:
                new_viol.append(v)
        for key, (f, n) in seen_known.items():
            print(f"KNOWN-FINDING: property={self.id} {f.get('what', key)} ({n} case(s) this run)")
        rc = 0
        replay_path = None
        if new_viol:
            replay_path = os.path.join(REPLAY, f"{self.id}-{self.tier}.json")
            json.dump({"property": self.id, "seed": self.seed, "tier": self.tier,
                       "kind": "failing-input", "violations": new_viol[:40], "violation_kinds": _kinds(new_viol),
                       "broken": self.broken, "disagreements": self.disagreements[:10]},
                      open(replay_path, "w"), indent=1, default=str)
            print(f"VIOLATION property={self.id} replay={replay_path}")
            rc = 1
        elif self.broken or self.disagreements:
            replay_path = os.path.join(REPLAY, f"{self.id}-{self.tier}.json")
            json.dump({"property": self.id, "seed": self.seed, "tier": self.tier,
                       "kind": "no-failing-input-found",
                       "no_longer_checks": self.broken,
                       "disagreements": self.disagreements[:20],
                       "searched": self.counts},
                      open(replay_path, "w"), indent=1, default=str)
            print(f"VIOLATION property={self.id} replay={replay_path} no-failing-input-found")
            rc = 1
        if rc == 0:
            try:
                os.unlink(os.path.join(REPLAY, f"{self.id}-{self.tier}.json"))
            except OSError:
                pass
        cov = {
            "obligations": max(self.obligations, 1),
            "discharged": self.discharged if not (self.broken and self.discharged == self.obligations and any(b['kind'] in ('theorem','axioms','forbidden') for b in self.broken)) else 0,
            "checker_cmd": self.checker_cmd or "lake build",
            "trusted_base": self.trusted,
            "evaluations": self.evaluations,
            "distinct_nontrivial": len(self.nontrivial),
            "rule": self.coverage.get("rule", ""),
            "samples": self.samples or ["(none)"],
            "traces_validated_against_impl": self.evaluations,
            "disagreements_checked": len(self.disagreements),
            "distribution": self.counts,
            "theorems": theorem_names(self.id) if os.path.exists(os.path.join(LEAN, "Gpa", "Props", f"{self.id}.lean")) else [],
            "axioms": getattr(self, "axioms", {}),
            "generated_facts_differing_from_spec": getattr(self, "fact_changes", {}),
            "broken": self.broken,
            "known_findings_seen": sorted(seen_known.keys()),
            "notes": self.notes,
        }
        cov.update({k: v for k, v in self.coverage.items() if k not in cov or k == "rule"})
        ev = {
            "property_id": self.id, "tier": self.tier, "seed": self.seed, "level": level,
            "coverage": cov, "assumptions": self.assumptions,
            "wall_s": round(time.time() - self.t0, 2), "violations": len(new_viol) + (1 if rc and not new_viol else 0),
        }
        os.makedirs(EVID, exist_ok=True)
        tmp = os.path.join(EVID, f".{self.id}.json.tmp")
        json.dump(ev, open(tmp, "w"), indent=1, default=str)
        os.replace(tmp, os.path.join(EVID, f"{self.id}.json"))
        log(f"[{self.id}] {self.tier}: obligations {self.discharged}/{self.obligations}, "
            f"cases {self.evaluations} (nontrivial {len(self.nontrivial)}), disagreements {len(self.disagreements)}, "
            f"violations {len(new_viol)}, known {len(seen_known)}, {ev['wall_s']}s -> rc {rc}")
        return rc
